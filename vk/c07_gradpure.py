"""C07 - gradient and Jacobian computation is observationally pure.

Enumerates gradient forms x parameter shapes x loss behaviours (succeed, raise at the k-th call of an
instrumented probe for every k, return a non-scalar, reference an unknown name) x backend; oracle:
the snapshot of every user variable (value bit-exact, Python type, dtype, requires_grad) before
the gradient expression equals the snapshot after it, and the loss evaluates to the same value.
DESIGN.md 3/C07.
"""
import itertools

import numpy as np
from hypothesis import given, strategies as st

from . import core
from .canon import to_canon, show

LEVEL = "fault_enumeration"
RULE = ("case = backend x gradient form (f:>P, f:>q, q∇f, P∇f, q∂g, P∂g, .jacobian(g;q), loss:>[w b], [w b]∂g) x "
        "parameter shape (real scalar, integer vector, real vector, real matrix) x loss behaviour (succeeds / probe raises "
        "at its k-th call, for every k up to one more than the calls a successful run makes / non-scalar result / "
        "unknown name); a Hypothesis pass adds generated parameter values; non-trivial = the run raised from inside the "
        "differentiated function or returned a non-scalar; distinct by case")
ASSUMPTIONS = [
    "snapshot = for every user variable: Python type, dtype, requires_grad, and the value bit-exactly (array bytes)",
    "the probe is an identity Python function imported into Klong; the fault position k is counted only during the gradient expression",
]

SHAPES = {
    'real-scalar': '2.5',
    'int-vector': '[1 2 3]',
    'real-vector': '[1.5 2.0 3.25]',
    'real-matrix': '[[1.5 2.0] [3.25 0.3]]',
}
FORMS_MONADIC = ['f:>P', 'f:>q', 'q∇f', 'P∇f']
FORMS_JAC = ['q∂g', 'P∂g', '.jacobian(g;q)']
FORMS_MULTI = ['loss:>[w b]', '[w b]∂gl', 'loss:>[w]', 'loss:>[w w]', 'loss:>[b w b]', '[w w]∂gl']     # a name may be listed twice
BEHAVIOURS = ['ok', 'raise', 'nonscalar', 'unknown']


class ProbeFault(Exception):
    pass


def vsnap(v):
    """Type + exact value of a variable."""
    t = type(v).__name__
    mod = type(v).__module__
    if isinstance(v, np.ndarray):
        if v.dtype == object:
            return (t, 'object', tuple(vsnap(x) for x in v.ravel().tolist()), v.shape)
        return (t, str(v.dtype), v.shape, v.tobytes())
    if mod.startswith('torch'):
        return (t, str(v.dtype), tuple(v.shape), bool(v.requires_grad), v.detach().cpu().numpy().tobytes())
    if isinstance(v, (int, float, np.number)):
        return (t, repr(v))
    if isinstance(v, str):
        return (t, str(v))
    if isinstance(v, dict):
        return (t, tuple(sorted((repr(k), vsnap(x)) for k, x in v.items())))
    return (t, id(v))


def snapshot(k):
    out = {}
    for name, v in k._context:
        s = str(name)
        if s.startswith('.'):
            continue
        out[s] = vsnap(v)
    return out


def describe(s):
    if s is None:
        return '<absent>'
    t = s[0]
    if t == 'ndarray' and s[1] != 'object':
        return f"ndarray({s[1]}, {np.frombuffer(s[3], dtype=s[1]).reshape(s[2]).tolist()})"
    if t == 'Tensor':
        return f"Tensor({s[1]}, requires_grad={s[3]}, {np.frombuffer(s[4], dtype=s[1].replace('torch.', '')).reshape(s[2]).tolist()})"
    return repr(s)[:120]


def build(backend, form, shape, behaviour):
    """Return (setup statements, gradient expression, value-expression to compare before/after)."""
    P = shape[4:] if shape.startswith('lit:') else SHAPES[shape]
    vec = shape != 'real-scalar'
    red = '+/,/' if shape == 'real-matrix' else '+/' if vec else ''
    if form in FORMS_MONADIC:
        body = {'ok': f'{red}probe(x)^2', 'raise': f'{red}probe(x)^2', 'nonscalar': 'probe(x),probe(x)',
                'unknown': f'{red}probe(x)*nosuchname'}[behaviour]
        setup = [f'q::{P}', 'f::{' + body + '}']
        return setup, form.replace('P', P), f'f({P})'
    if form in FORMS_JAC:
        body = {'ok': 'probe(x)*probe(x)', 'raise': 'probe(x)*probe(x)', 'nonscalar': 'probe(x)*probe(x)',
                'unknown': 'probe(x)*nosuchname'}[behaviour]
        if shape == 'real-matrix':
            body = ',/' + body
        setup = [f'q::{P}', 'g::{x;' + body + '}']
        return setup, form.replace('P', P), f'g({P})'
    # multi-parameter forms: w has the generated shape, b is a real scalar
    if form in ('[w b]∂gl', '[w w]∂gl'):
        body = {'ok': 'probe(w*b)', 'raise': 'probe(w*b)', 'nonscalar': 'probe(w*b)', 'unknown': 'probe(w*nosuchname)'}[behaviour]
        if shape == 'real-matrix':
            body = ',/' + body
        setup = [f'w::{P}', 'b::0.75', 'gl::{' + body + '}']
        return setup, form, 'gl()'
    body = {'ok': f'{red}probe((w*w)+b)', 'raise': f'{red}probe((w*w)+b)', 'nonscalar': 'probe(w+b),1.0',
            'unknown': f'{red}probe(w*nosuchname)'}[behaviour]
    setup = [f'w::{P}', 'b::0.75', 'loss::{' + body + '}']
    return setup, form, 'loss()'


def run_case(backend, form, shape, behaviour, k_fault):
    """Execute one case. Returns dict(outcome, calls, diffs)."""
    from klongpy import KlongInterpreter
    k = KlongInterpreter(backend=backend, device='cpu') if backend == 'torch' else KlongInterpreter()
    state = {'count': 0, 'armed': False, 'fault': k_fault}

    def probe(x):
        if state['armed']:
            state['count'] += 1
            if state['fault'] is not None and state['count'] == state['fault']:
                raise ProbeFault(f'probe fault at call {state["count"]}')
        return x

    k['probe'] = probe
    k('other::[9.5 8.25 7.0]')
    k('keep::"text"')
    k('cnt::41')
    setup, expr, valexpr = build(backend, form, shape, behaviour)
    for s in setup:
        k(s)

    def value():
        try:
            return ('val', vsnap(k(valexpr)))
        except Exception as e:
            return ('err', type(e).__name__)
    v0 = value()
    before = snapshot(k)
    state['armed'] = True
    try:
        r = k(expr)
        outcome = 'returned'
        detail = show(to_canon(r))[:80]
    except ProbeFault:
        outcome, detail = 'raised-in-fn', 'ProbeFault'
    except RecursionError:
        outcome, detail = 'raised', 'RecursionError'
    except Exception as e:
        outcome, detail = 'raised', type(e).__name__
    state['armed'] = False
    after = snapshot(k)
    v1 = value()
    diffs = []
    for name in sorted(set(before) | set(after)):
        if before.get(name) != after.get(name):
            b, a = before.get(name), after.get(name)
            what = 'type' if (b is None or a is None or b[:2] != a[:2] or (b[0] == 'Tensor' and b[3] != a[3])) else 'value'
            diffs.append((name, what, describe(b), describe(a)))
    if v0 != v1 and not diffs:
        diffs.append((valexpr, 'function-value', repr(v0)[:100], repr(v1)[:100]))
    return {'outcome': outcome, 'detail': detail, 'calls': state['count'], 'diffs': diffs, 'expr': expr, 'setup': setup}


def judge(stats, report, backend, form, shape, behaviour, k_fault):
    res = run_case(backend, form, shape, behaviour, k_fault)
    nontriv = res['outcome'] != 'returned' or behaviour == 'nonscalar'
    stats.case((backend, form, shape, behaviour, k_fault), nontrivial=nontriv,
               classes=['backend:' + backend, 'form:' + form, 'behaviour:' + behaviour, 'outcome:' + res['outcome']],
               sample={"backend": backend, "setup": res['setup'], "expr": res['expr'], "fault_at_call": k_fault,
                       "outcome": res['outcome'], "probe_calls": res['calls']})
    if res['diffs']:
        name, what, b, a = res['diffs'][0]
        role = 'parameter' if name in ('q', 'w', 'b') else 'other-variable' if what != 'function-value' else 'function'
        shape_key = 'generated-real-vector' if shape.startswith('lit:') else shape
        report(f"{backend}/{form}/{shape_key}/{res['outcome']}/{role}-{what}",
               {"backend": backend, "form": form, "shape": shape, "behaviour": behaviour, "k": k_fault,
                "setup": res['setup'], "expr": res['expr']},
               expected=f'{name} unchanged: {b}', observed=f'{a} after {res["outcome"]} ({res["detail"]})')
    return res


def enum_shard(backend, idx, nshards):
    stats = core.Stats()

    def report(fkey, case, expected=None, observed=None, note=None):
        stats.fail(fkey, case, expected, observed, note)
    n = 0
    forms = FORMS_MONADIC + FORMS_JAC + FORMS_MULTI
    for form, shape in itertools.product(forms, SHAPES):
        for behaviour in BEHAVIOURS:
            n += 1
            if n % nshards != idx:
                continue
            if behaviour == 'raise':
                base = run_case(backend, form, shape, 'ok', None)
                ncalls = base['calls']
                for kf in range(1, ncalls + 2):
                    judge(stats, report, backend, form, shape, 'raise', kf)
                stats.extra['max_probe_calls'] = max(stats.extra.get('max_probe_calls', 0), ncalls)
            else:
                judge(stats, report, backend, form, shape, behaviour, None)
    return stats


def hyp_shard(backend, seed_value, n):
    """Generated real-vector parameter values (success path and fault positions): catches value drift that
    only some floats show (e.g. x+eps-2eps+eps != x)."""
    stats = core.Stats()
    f = core.Findings("C07")
    vals = st.lists(st.floats(min_value=0.125, max_value=50.0, allow_nan=False, width=32).map(lambda v: round(v, 3)),
                    min_size=1, max_size=4)

    def make_test(report):
        @given(st.sampled_from(FORMS_MONADIC + FORMS_JAC + FORMS_MULTI), vals, st.sampled_from([None, None, 1, 2, 3]))
        def t(form, vs, kf):
            shape = 'lit:[' + ' '.join(repr(float(v)) for v in vs) + ']'
            judge(stats, report, backend, form, shape, 'ok' if kf is None else 'raise', kf)
        return t
    core.hyp_collect(stats, make_test, seed_value, n, rounds=4, shrink=False, is_known=lambda k: f.match(k) is not None)
    return stats


def check(run):
    quick = run.tier == 'quick'
    run.absorb(core.pool_map('vk.c07_gradpure', 'hyp_shard', [(b, run.seed * 1000 + i, 150 if quick else 4000)
                                                               for b in ('numpy', 'torch') for i in range(4)]))
    jobs = [(b, i, 8) for b in ('numpy', 'torch') for i in range(8)]
    run.absorb(core.pool_map('vk.c07_gradpure', 'enum_shard', jobs))
    run.exhaustive = True
    run.min_class_fraction = {'outcome:raised-in-fn': 0.15}


def replay(case):
    out = []
    st_ = core.Stats()

    def report(fkey, case_, expected=None, observed=None, note=None):
        out.append((fkey, expected, observed))
    judge(st_, report, case["backend"], case["form"], case["shape"], case["behaviour"], case["k"])
    return out
