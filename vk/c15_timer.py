"""C15 - timers tick once per interval until stopped, and stop for good.

The real _call_periodic / KGTimerHandler / .timer / .timerc are driven by a virtual-time event
loop owned by the harness (same eligibility rule as asyncio: a handle runs when
when < now + clock_resolution).  Generated: callback scripts, intervals, start times, dispatch
latencies, external cancels, up to two timers.  Oracle: online monitor + trace predicate.
DESIGN.md 3/C15.
"""
import heapq
import math

from hypothesis import given, strategies as st

from . import core

LEVEL = "exploration"
RULE = ("scenario = 1-2 timers (interval in {0,1,2,5}, named Klong callback) x callback script of <=8 ticks (duration "
        "in {0,0.4,0.6,0.85,1.25,1.75,2.45} intervals, return 1/2/0, action none/cancel-self/cancel-other/redefine/raise) x loop start "
        "time in {0,0.3,1000.1,12345.678} x per-wake-up dispatch latency (exact, half a clock resolution early, late by "
        "0.3/1.7 intervals) x external .timerc calls at generated times, run on a virtual-time loop; non-trivial = some "
        "timer has >=3 ticks and at least one action, non-zero duration or non-exact latency; distinct by scenario")
ASSUMPTIONS = [
    "virtual loop implements time/call_soon/call_at/call_later with asyncio's rule: run handles with when < now + resolution (1e-9)",
    "callback return values are restricted to the documented 1 (continue) / 0 (stop) plus the truthy number 2",
    "durations/latencies are chosen so that no callback ends exactly on a boundary (whether that boundary counts as missed is undefined)",
    "after a callback raised, the result of .timerc on that timer is not judged (the statement does not define it)",
]

RES = 1e-9


class VHandle:
    __slots__ = ('when', 'cb', 'args', 'cancelled', 'seq', 'tag')

    def __init__(self, when, cb, args, seq):
        self.when, self.cb, self.args, self.cancelled, self.seq, self.tag = when, cb, args, False, seq, None

    def cancel(self):
        self.cancelled = True

    def __lt__(self, o):
        return (self.when, self.seq) < (o.when, o.seq)


class VLoop:
    def __init__(self, start):
        self.now = start
        self.ready = []
        self.sched = []
        self.seq = 0
        self.iteration = 0
        self.errors = []
        self.current = None

    def time(self):
        return self.now

    def _mk(self, when, cb, args):
        self.seq += 1
        return VHandle(when, cb, args, self.seq)

    def call_soon(self, cb, *args):
        h = self._mk(None, cb, args)
        self.ready.append(h)
        return h

    def call_at(self, when, cb, *args):
        h = self._mk(when, cb, args)
        heapq.heappush(self.sched, h)
        return h

    def call_later(self, delay, cb, *args):
        return self.call_at(self.now + delay, cb, *args)

    def pending(self):
        return [h for h in self.ready + self.sched if not h.cancelled]

    def run(self, latency_of, max_iter=400):
        """latency_of(handle) -> ('exact'|'early'|float seconds late) for the wake-up that serves handle."""
        while self.iteration < max_iter:
            while self.sched and self.sched[0].cancelled:
                heapq.heappop(self.sched)
            if not any(not h.cancelled for h in self.ready) and not self.sched:
                return 'idle'
            self.iteration += 1
            if not any(not h.cancelled for h in self.ready):
                first = self.sched[0]
                lat = latency_of(first)
                if lat == 'exact':
                    wake = first.when
                elif lat == 'early':
                    wake = first.when - RES / 2
                else:
                    wake = first.when + lat
                if wake > self.now:
                    self.now = wake
            end = self.now + RES
            while self.sched and (self.sched[0].cancelled or self.sched[0].when < end):
                h = heapq.heappop(self.sched)
                if not h.cancelled:
                    self.ready.append(h)
            batch, self.ready = self.ready, []
            for h in batch:
                if h.cancelled:
                    continue
                self.current = h
                try:
                    h.cb(*h.args)
                except Exception as e:          # asyncio logs and carries on
                    self.errors.append(type(e).__name__)
                self.current = None
        return 'cap'


# ----------------------------------------------------------------------------- scenario

DUR = [0.0, 0.4, 0.6, 0.85, 1.25, 1.75, 2.45]      # fractions of the interval on both sides of one half (a rounding rule would differ there)
LAT = ['exact', 'early', 0.3, 1.7]


@st.composite
def scenarios(draw):
    nt = draw(st.sampled_from([1, 1, 2]))
    timers = []
    for t in range(nt):
        interval = draw(st.sampled_from([0, 1, 2, 5]))
        actions = ['none'] * 5 + ['cancel-self', 'redefine', 'raise'] + (['cancel-other'] if nt == 2 else [])
        script = draw(st.lists(st.tuples(st.sampled_from(DUR), st.sampled_from([1, 1, 1, 2, 0]), st.sampled_from(actions)),
                               min_size=1, max_size=8))
        timers.append({'interval': interval, 'script': script, 'create_at': draw(st.sampled_from([0.0, 0.0, 0.7, 3.1]))})
    start = draw(st.sampled_from([0.0, 0.3, 1000.1, 12345.678]))
    lats = draw(st.lists(st.sampled_from(['exact', 'exact', 'early', 0.3, 1.7]), min_size=1, max_size=12))
    ext = draw(st.lists(st.tuples(st.sampled_from([0.2, 0.5, 1.5, 2.6, 3.7, 6.2, 11.3]),
                                  st.integers(0, nt - 1), st.sampled_from(['cancel', 'cancel-twice', 'redefine'])),
                        max_size=3))
    return {'timers': timers, 'start': start, 'lats': lats, 'ext': ext}


def simulate(sc):
    """Run the scenario against the real timer code; return (trace dict, list of violations)."""
    from klongpy import KlongInterpreter
    k = KlongInterpreter()
    loop = VLoop(sc['start'])
    k['.system'] = {'klongloop': loop}
    viol = []
    T = []
    for i, t in enumerate(sc['timers']):
        T.append({'id': i, 'interval': t['interval'], 'script': t['script'], 'live': False, 'created': False,
                  'raised': False, 'ticks': [], 'version': 0, 'start': None, 'in_cb': False, 'handle_var': f'th{i}',
                  'last_end': None, 'iters': []})

    def unit(tm):
        return tm['interval'] if tm['interval'] > 0 else 1.0

    def timerc(target, who):
        tm = T[target]
        if not tm['created']:
            return
        r = k(f".timerc({tm['handle_var']})")
        exp = 1 if tm['live'] else 0
        if not tm['raised'] and r != exp:
            viol.append(('timerc-result', f"timer {target} live={tm['live']} -> {exp}", f"{r!r} (issued {who} at t={loop.now - sc['start']:.9g})"))
        if r == 1:
            tm['live'] = False
        return r

    def act(x, y):
        i, ver = int(x), int(y)
        tm = T[i]
        now = loop.now
        h = loop.current
        n = len(tm['ticks'])
        rec = {'t': now, 'when': getattr(h, 'when', None), 'ver': ver, 'iter': loop.iteration}
        tm['ticks'].append(rec)
        tm['iters'].append(loop.iteration)
        st0, iv = tm['start'], tm['interval']
        rel = now - st0
        if tm['in_cb']:
            viol.append(('overlap', 'invocations of one timer never nest', f'timer {i} re-entered at t={rel:.9g}'))
        if not tm['live']:
            viol.append(('tick-after-stop', f'no invocation of timer {i} after it was stopped', f'invoked at t={rel:.9g} (tick #{n})'))
        if ver != tm['version']:
            viol.append(('stale-callback', f'version {tm["version"]} of the named callback', f'version {ver} invoked at tick #{n}'))
        if iv > 0:
            tol = 1e-6 * max(1.0, abs(now))
            when = rec['when'] if rec['when'] is not None else now
            kb = int(round((when - st0) / iv))         # the boundary this invocation was scheduled for
            rec['boundary'] = kb
            if abs((when - st0) - kb * iv) > tol or kb < 1:
                viol.append(('not-a-boundary', f'deadline at a multiple of the interval {iv}', f'deadline {when - st0:.12g}'))
            if now < when - RES - 1e-12 * max(1.0, abs(now)):
                viol.append(('early', f'not before its boundary {kb * iv}', f't={rel:.12g}'))
            if n > 0:
                prev = tm['ticks'][n - 1]
                pend = prev['end'] - st0
                if kb <= prev['boundary']:
                    viol.append(('double-tick', f'at most one invocation per boundary (previous boundary {prev["boundary"]})',
                                 f'boundary {kb} again at t={rel:.12g}'))
                else:
                    # a callback that ends exactly on a boundary (possible when two timers interact) may or may
                    # not count that boundary as missed: both readings are accepted
                    eps = 1e-7 * max(1.0, abs(now)) / iv
                    want = max(math.floor(pend / iv + eps), prev['boundary']) + 1
                    want_lo = max(math.floor(pend / iv - eps), prev['boundary']) + 1
                    if kb != want and kb != want_lo:
                        viol.append(('wrong-boundary', f'boundary {want} (first boundary after the previous callback, '
                                     f'which served boundary {prev["boundary"]} and ended at {pend:.9g})', f'boundary {kb}'))
            elif kb != 1:
                viol.append(('wrong-boundary', 'first invocation at boundary 1', f'boundary {kb}'))
        else:
            if n > 0 and loop.iteration != tm['iters'][n - 1] + 1:
                viol.append(('zero-interval-iteration', 'one invocation per loop iteration',
                             f'iterations {tm["iters"][n - 1]} -> {loop.iteration}'))
        tm['in_cb'] = True
        try:
            if n < len(tm['script']):
                dur, ret, action = tm['script'][n]
            else:
                dur, ret, action = 0.0, 0, 'none'
            loop.now += dur * unit(tm)
            if action == 'cancel-self':
                timerc(i, 'from its own callback')
            elif action == 'cancel-other' and len(T) > 1:
                timerc(1 - i, 'from the other timer callback')
            elif action == 'redefine':
                tm['version'] += 1
                k(f"cb{i}::{{act({i};{tm['version']})}}")
            elif action == 'raise':
                tm['live'] = False
                tm['raised'] = True
                rec['end'] = loop.now
                raise RuntimeError('scripted failure')
            rec['end'] = loop.now
            if not ret:
                tm['live'] = False
            return ret
        finally:
            rec.setdefault('end', loop.now)
            tm['in_cb'] = False

    k['act'] = act

    def create(i):
        tm = T[i]
        k(f"cb{i}::{{act({i};0)}}")
        tm['start'] = loop.now
        r = k(f"th{i}::.timer(\"t{i}\";{tm['interval']};cb{i})")
        tm['created'] = True
        tm['live'] = True

    def ext_event(idx, kind):
        tm = T[idx]
        if kind == 'cancel':
            timerc(idx, 'externally')
        elif kind == 'cancel-twice':
            timerc(idx, 'externally')
            timerc(idx, 'externally (second call)')
        elif kind == 'redefine' and tm['created']:
            tm['version'] += 1
            k(f"cb{idx}::{{act({idx};{tm['version']})}}")

    for i, t in enumerate(sc['timers']):
        if t['create_at'] == 0.0:
            create(i)
        else:
            loop.call_at(sc['start'] + t['create_at'], create, i)
    base_unit = min([unit(t) for t in T])
    for (at, idx, kind) in sc['ext']:
        loop.call_at(sc['start'] + at * base_unit, ext_event, idx, kind)

    lat_i = [0]

    def latency_of(h):
        l = sc['lats'][lat_i[0] % len(sc['lats'])]
        lat_i[0] += 1
        return l * base_unit if isinstance(l, float) else l

    cap = 40 + 12 * sum(len(t['script']) for t in sc['timers'])
    end = loop.run(latency_of, max_iter=cap)
    for tm in T:
        if tm['created'] and tm['live'] and end == 'idle':
            viol.append(('died-silently', f'timer {tm["id"]} still live (no stop condition occurred)', 'no pending handle'))
        if len(tm['ticks']) > len(tm['script']) + 1:
            viol.append(('runaway', f'<= {len(tm["script"]) + 1} invocations', f'{len(tm["ticks"])} invocations'))
    trace = {'ticks': [[(round(r['t'] - tm['start'], 9), r.get('boundary'), r['ver']) for r in tm['ticks']] for tm in T if tm['start'] is not None],
             'end': end, 'loop_errors': loop.errors[:4]}
    return trace, viol


def nontrivial(sc):
    for t in sc['timers']:
        if len(t['script']) >= 3 and (any(a != 'none' for _, _, a in t['script']) or any(d > 0 for d, _, _ in t['script'])
                                      or any(l != 'exact' for l in sc['lats'])):
            return True
    return False


def classes(sc):
    cls = []
    for t in sc['timers']:
        cls.append('interval:%d' % t['interval'])
        for _, _, a in t['script']:
            if a != 'none':
                cls.append('action:' + a)
        if any(d > 1 for d, _, _ in t['script']):
            cls.append('slow-callback')
    if any(l == 'early' for l in sc['lats']):
        cls.append('early-dispatch')
    if any(isinstance(l, float) for l in sc['lats']):
        cls.append('late-dispatch')
    if sc['ext']:
        cls.append('external-event')
    if len(sc['timers']) == 2:
        cls.append('two-timers')
    return sorted(set(cls))


def fkey(v, sc):
    """Key: violated clause + the circumstance class taken from the scenario (not from observed values)."""
    kind = v[0]
    if kind in ('double-tick', 'early', 'wrong-boundary', 'not-a-boundary'):
        early = any(l == 'early' for l in sc['lats'])
        inexact = sc['start'] not in (0.0,)
        slow = any(d > 0 for t in sc['timers'] for d, _, _ in t['script'])
        late = any(isinstance(l, float) for l in sc['lats'])
        return f"{kind}/early-dispatch={int(early)}/inexact-start={int(inexact)}/slow={int(slow)}/late={int(late)}"
    if kind in ('tick-after-stop', 'timerc-result'):
        acts = sorted({a for t in sc['timers'] for _, _, a in t['script'] if a.startswith('cancel')} |
                      {'ext-' + e[2] for e in sc['ext'] if e[2].startswith('cancel')})
        return f"{kind}/{'+'.join(acts) or 'none'}"
    return kind


def judge(stats, report, sc):
    trace, viol = simulate(sc)
    stats.case(repr(sc), nontrivial=nontrivial(sc), classes=classes(sc),
               sample={"scenario": sc, "trace": trace})
    if viol:
        v = viol[0]
        report(fkey(v, sc), {"scenario": sc}, expected=v[1], observed=v[2], note=f"{len(viol)} violations; trace={trace}")


def shard(seed_value, n):
    stats = core.Stats()
    f = core.Findings("C15")

    def make_test(report):
        @given(scenarios())
        def t(sc):
            judge(stats, report, sc)
        return t
    core.hyp_collect(stats, make_test, seed_value, n, rounds=10, is_known=lambda k: f.match(k) is not None)
    return stats


def check(run):
    quick = run.tier == 'quick'
    per = 1500 if quick else 25000
    run.absorb(core.pool_map('vk.c15_timer', 'shard', [(run.seed * 1000 + i, per) for i in range(16)]))
    run.min_class_fraction = {'action:cancel-self': 0.1, 'slow-callback': 0.2, 'early-dispatch': 0.2, 'two-timers': 0.15}


def _tuplify(sc):
    sc = dict(sc)
    sc['timers'] = [dict(t, script=[tuple(x) for x in t['script']]) for t in sc['timers']]
    sc['ext'] = [tuple(e) for e in sc['ext']]
    return sc


def replay(case):
    sc = _tuplify(case['scenario'])
    trace, viol = simulate(sc)
    return [(fkey(v, sc), v[1], v[2]) for v in viol[:3]]
