"""C19 - a table holds exactly the rows inserted into it, in the documented order.

Rule-based machine generating operation tuples; a World runs them as Klong source
(.py("klongpy.db")) against a list-of-rows model.  DESIGN.md 3/C19.
"""
import math

from hypothesis import strategies as st
from hypothesis.stateful import RuleBasedStateMachine, rule, precondition

from . import core
from .canon import to_canon, render, show, from_json, I, R, S, L, LL

LEVEL = "exploration"
RULE = ("history (<=25 steps, Hypothesis rule-based machine) over: create from 1-3 columns (integer a, real b, string c; "
        "0-4 initial rows), .insert of one row, .insert of a batch, column read t?name, #t, .schema, .index on one or two "
        "columns whose current values are unique, re-insert of an existing key (singly and twice in one batch), .rindex, "
        "add a column t,name,,values, SQL through .db (select *, count(*), filtered projection); observations are "
        "rules of their own so that reads directly after inserts are generated; non-trivial = a read happens directly "
        "after an insert with no other observation in between, or an index is created/dropped after inserts; distinct by history")
ASSUMPTIONS = [
    "values are compared numerically (pandas object columns legitimately hold Python ints / list literals coerce 4 to 4.0)",
    "index columns have unique current values when .index is called (the property's precondition; ensured by the generator)",
    "DuckDB results come back squeezed (one row / one column lose a dimension): compared as flattened row-major sequences",
]

COLS = ['a', 'b', 'c']
AVALS = list(range(0, 8))
BVALS = [0.5, 1.5, 2.5, 7.25]
CVALS = ['p', 'q', 'r', 'st']


def cell(col, v):
    return I(v) if col in ('a', 'd') else R(v) if col == 'b' else S(v)


def norm(c):
    """canonical scalar -> comparable python value (numbers as float)"""
    if c[0] in 'ir':
        return float(c[1])
    if c[0] in 'sc':
        return c[1]
    if c[0] == 'l' and len(c[1]) == 1:
        return norm(c[1][0])
    return c


def flat(c):
    if c[0] == 'l':
        out = []
        for x in c[1]:
            out += flat(x)
        return out
    return [norm(c)]


def single_threaded_duckdb():
    """16 worker processes x DuckDB's default thread pool (one per core) thrash the machine: connect with threads=1."""
    import klongpy.db.sys_fn_db as sdb
    if getattr(sdb.duckdb, '_vk_proxy', False):
        return
    real = sdb.duckdb

    class Proxy:
        _vk_proxy = True

        def __getattr__(self, name):
            return getattr(real, name)

        def connect(self, *a, **kw):
            kw.setdefault('config', {'threads': 1})
            return real.connect(*a, **kw)
    sdb.duckdb = Proxy()


class World:
    def __init__(self):
        from klongpy import KlongInterpreter
        single_threaded_duckdb()
        self.k = KlongInterpreter()
        self.k('.py("klongpy.db")')
        self.cols = None
        self.rows = []          # list of dict col -> python value
        self.idx = None
        self.ops = []
        self.texts = []
        self.fails = []
        self.flags = set()
        self.pending_insert = False     # an insert happened and nothing has been observed since
        self.inserted = False

    def ev(self, t):
        self.texts.append(t)
        return self.k(t)

    def fail(self, kind, exp, obs):
        self.fails.append((kind, exp, obs))

    # ------------------------------------------------------------------ model helpers
    def key(self, row):
        return tuple(float(row[c]) if not isinstance(row[c], str) else row[c] for c in self.idx)

    def model_insert(self, row):
        if self.idx is None:
            self.rows.append(dict(row))
        else:
            kk = self.key(row)
            for i, r in enumerate(self.rows):
                if self.key(r) == kk:
                    self.rows[i] = dict(row)
                    break
            else:
                self.rows.append(dict(row))
            self.rows.sort(key=self.key)

    def row_text(self, row):
        return '[' + ' '.join(render(cell(c, row[c]), True) for c in self.cols) + ']'

    # ------------------------------------------------------------------ operations
    def apply(self, op):
        self.ops.append(op)
        kind = op[0]
        if kind == 'create':
            _, cols, rows = op
            self.cols = list(cols)
            self.rows = [dict(zip(cols, r)) for r in rows]
            self.ev('e::[]')
            for c in cols:
                vals = '[' + ' '.join(render(cell(c, r[c]), True) for r in self.rows) + ']'
                self.ev(f'e::e,,"{c}",,{vals}')
            self.ev('T::.table(e)')
            self.ev('db::.db(:{},"T",,T)')
        elif kind == 'insert':
            _, row = op
            row = dict(zip(self.cols, row))
            self.ev(f'.insert(T;{self.row_text(row)})')
            self.model_insert(row)
            self.pending_insert = True
            self.inserted = True
        elif kind == 'insertb':
            _, rows = op
            rows = [dict(zip(self.cols, r)) for r in rows]
            self.ev('.insert(T;[' + ' '.join(self.row_text(r) for r in rows) + '])')
            if self.idx is not None and len({self.key(r) for r in rows}) < len(rows):
                self.flags.add('duplicate-key-in-batch')
            for r in rows:
                self.model_insert(r)
            self.pending_insert = True
            self.inserted = True
        elif kind == 'read':
            _, col = op
            self.observed('read')
            got = to_canon(self.ev(f'T?"{col}"'))
            self.cmp_seq('column/' + ('after-insert' if self.was_pending else 'quiet'), [self.nv(r[col]) for r in self.rows], got, col)
        elif kind == 'count':
            self.observed('count')
            got = to_canon(self.ev('#T'))
            if got != ('i', len(self.rows)):
                self.fail('count', len(self.rows), show(got))
        elif kind == 'schema':
            self.observed('schema')
            got = to_canon(self.ev('.schema(T)'))
            want = ('l', tuple(S(c) for c in self.cols))
            if got != want:
                self.fail('schema', show(want), show(got))
        elif kind == 'index':
            _, cols = op
            if self.inserted:
                self.flags.add('index-after-inserts')
            got = to_canon(self.ev('.index(T;[' + ' '.join(f'"{c}"' for c in cols) + '])'))
            self.idx = list(cols)
            self.rows.sort(key=self.key)
            if got != ('l', tuple(S(c) for c in cols)):
                self.fail('index-result', list(cols), show(got))
        elif kind == 'rindex':
            got = to_canon(self.ev('.rindex(T)'))
            want = 1 if self.idx is not None else 0
            if self.idx is not None and self.inserted:
                self.flags.add('rindex-after-inserts')
            self.idx = None
            if got != ('i', want):
                self.fail('rindex-result', want, show(got))
        elif kind == 'addcol':
            _, vals = op
            if 'd' in self.cols or len(vals) != len(self.rows):
                self.ops.pop()
                return
            self.observed('addcol')
            self.ev('T,"d",,[' + ' '.join(str(int(v)) for v in vals) + ']')
            self.cols.append('d')
            for r, v in zip(self.rows, vals):
                r['d'] = int(v)
        elif kind == 'sql':
            _, what, param = op
            self.observed('sql')
            if what == 'star':
                got = to_canon(self.ev('db("select * from T")'))
                want = [self.nv(r[c]) for r in self.rows for c in self.cols]
                self.cmp_flat('sql/select-star', want, got, ordered=True)
            elif what == 'count':
                got = to_canon(self.ev('db("select count(*) from T")'))
                if flat(got) != [float(len(self.rows))]:
                    self.fail('sql/count', len(self.rows), show(got))
            else:
                col = self.cols[0]
                if col == 'c':
                    q, want = f"select {col} from T where {col} > 'p'", [r[col] for r in self.rows if r[col] > 'p']
                else:
                    q, want = f'select {col} from T where {col} > {param}', [float(r[col]) for r in self.rows if r[col] > param]
                got = to_canon(self.ev('db("' + q + '")'))
                self.cmp_flat('sql/filter', want, got, ordered=False)
        else:
            raise ValueError(op)

    def observed(self, what):
        self.was_pending = self.pending_insert
        if self.pending_insert and what in ('read', 'addcol'):
            self.flags.add('read-directly-after-insert')
        self.pending_insert = False

    @staticmethod
    def nv(v):
        return v if isinstance(v, str) else float(v)

    def cmp_seq(self, kind, want, got, col):
        have = flat(got) if got[0] == 'l' else None
        if got == ('l', ()):
            have = []
        if have != want:
            self.fail(kind, f'{col}: {want}', show(got))

    def cmp_flat(self, kind, want, got, ordered):
        have = flat(got)
        if got == ('l', ()):
            have = []
        if (have != want) if ordered else (sorted(map(repr, have)) != sorted(map(repr, want))):
            self.fail(kind, want, show(got))

    def final(self):
        for op in [('count',), ('schema',)] + [('read', c) for c in (self.cols or [])] + [('sql', 'star', 0), ('sql', 'count', 0)]:
            self.apply(op)
            self.ops.pop()


def make_machine(stats, report):
    def row_strategy(cols):
        parts = []
        for c in cols:
            parts.append(st.sampled_from(AVALS if c in ('a', 'd') else BVALS if c == 'b' else CVALS))
        return st.tuples(*parts)

    class M(RuleBasedStateMachine):
        def __init__(self):
            super().__init__()
            self.w = World()
            self.reported = False

        def do(self, op):
            if self.reported:
                return
            try:
                self.w.apply(op)
            except Exception as e:
                self.w.fail('raised/' + op[0], 'operation succeeds', f'{type(e).__name__}: {e}'[:200])
            self.flush()

        def flush(self):
            w = self.w
            if w.fails and not self.reported:
                self.reported = True
                kind, exp, obs = w.fails[0]
                ctx = 'indexed%d' % len(w.idx) if w.idx else 'unindexed'
                report(f"{kind}/{ctx}", {"ops": list(w.ops), "klong": list(w.texts)}, expected=exp, observed=obs)

        @precondition(lambda self: self.w.cols is None)
        @rule(data=st.data(), cols=st.sampled_from([('a',), ('a', 'b'), ('a', 'b', 'c'), ('a', 'c'), ('c', 'b')]))
        def create(self, data, cols):
            rows = data.draw(st.lists(row_strategy(cols), max_size=4))
            self.do(('create', cols, tuple(rows)))

        @precondition(lambda self: self.w.cols is not None)
        @rule(data=st.data())
        def insert(self, data):
            self.do(('insert', data.draw(row_strategy(self.w.cols))))

        @precondition(lambda self: self.w.cols is not None and self.w.rows)
        @rule(data=st.data())
        def reinsert(self, data):
            """insert a row whose key columns repeat an existing row"""
            w = self.w
            base = data.draw(st.sampled_from(w.rows))
            row = list(data.draw(row_strategy(w.cols)))
            keycols = w.idx or [w.cols[0]]
            for i, c in enumerate(w.cols):
                if c in keycols:
                    row[i] = base[c]
            if data.draw(st.booleans()):
                row2 = list(data.draw(row_strategy(w.cols)))
                for i, c in enumerate(w.cols):
                    if c in keycols:
                        row2[i] = base[c]
                self.do(('insertb', (tuple(row), tuple(row2))))
            else:
                self.do(('insert', tuple(row)))

        @precondition(lambda self: self.w.cols is not None)
        @rule(data=st.data())
        def insertb(self, data):
            self.do(('insertb', tuple(data.draw(st.lists(row_strategy(self.w.cols), min_size=1, max_size=3)))))

        @precondition(lambda self: self.w.cols is not None)
        @rule(data=st.data())
        def read(self, data):
            self.do(('read', data.draw(st.sampled_from(self.w.cols))))

        @precondition(lambda self: self.w.cols is not None)
        @rule(which=st.sampled_from(['count', 'schema']))
        def observe(self, which):
            self.do((which,))

        @precondition(lambda self: self.w.cols is not None)
        @rule(what=st.sampled_from(['star', 'count', 'filter']), param=st.integers(0, 5))
        def sql(self, what, param):
            self.do(('sql', what, param))

        @precondition(lambda self: self.w.cols is not None and self.w.idx is None)
        @rule(data=st.data())
        def index(self, data):
            w = self.w
            cands = [c for c in w.cols if c in ('a', 'c')]
            choices = [(c,) for c in cands] + ([tuple(cands)] if len(cands) == 2 else [])
            ok = []
            for ch in choices:
                keys = [tuple(r[c] for c in ch) for r in w.rows]
                if len(set(keys)) == len(keys):
                    ok.append(ch)
            if ok:
                self.do(('index', data.draw(st.sampled_from(ok))))

        @precondition(lambda self: self.w.cols is not None)
        @rule()
        def rindex(self):
            self.do(('rindex',))

        @precondition(lambda self: self.w.cols is not None and 'd' not in self.w.cols)
        @rule(data=st.data())
        def addcol(self, data):
            n = len(self.w.rows)
            self.do(('addcol', tuple(data.draw(st.lists(st.sampled_from(AVALS), min_size=n, max_size=n)))))

        def teardown(self):
            w = self.w
            if w.cols is None:
                return
            if not self.reported:
                try:
                    w.final()
                except Exception as e:
                    w.fail('raised/final', 'observation succeeds', f'{type(e).__name__}: {e}'[:200])
                if w.fails:
                    kind, exp, obs = w.fails[0]
                    ctx = 'indexed%d' % len(w.idx) if w.idx else 'unindexed'
                    stats.fail(f"final/{kind}/{ctx}", {"ops": list(w.ops), "klong": list(w.texts)}, exp, obs)
            stats.extra['steps'] = stats.extra.get('steps', 0) + len(w.ops)
            nontriv = bool(w.flags & {'read-directly-after-insert', 'index-after-inserts', 'rindex-after-inserts'})
            stats.case(tuple(w.texts), nontrivial=nontriv, classes=['flag:' + f for f in sorted(w.flags)] + (['indexed'] if w.idx else []),
                       sample={"klong": w.texts[:30]} if len(w.texts) >= 8 else None)
    return M


def run_ops(ops):
    w = World()
    for op in ops:
        try:
            w.apply(op)
        except Exception as e:
            w.fail('raised/' + str(op[0]), 'operation succeeds', f'{type(e).__name__}: {e}'[:200])
        if w.fails:
            break
    return w


def minimise(fkey, case):
    kind = fkey.rsplit('/', 1)[0]
    ops = core.ddmin_list(list(case["ops"]), lambda c: (lambda w: bool(w.fails) and w.fails[0][0] == kind)(run_ops(c)), max_tests=150)
    w = run_ops(ops)
    case = {"ops": list(w.ops), "klong": list(w.texts)}
    if w.fails:
        return case, w.fails[0][1], w.fails[0][2]
    return case


def shard(seed_value, n, steps):
    stats = core.Stats()
    f = core.Findings("C19")
    core.run_machine_collect(stats, lambda report: make_machine(stats, report), seed_value, n, steps, rounds=8,
                             is_known=lambda k: f.match(k) is not None, minimise=minimise)
    return stats


def check(run):
    quick = run.tier == 'quick'
    run.absorb(core.pool_map('vk.c19_table', 'shard', [(run.seed * 1000 + i, 70 if quick else 1000, 25) for i in range(16)],
                             mem_gb=None))
    run.min_class_fraction = {'flag:read-directly-after-insert': 0.2, 'flag:index-after-inserts': 0.04}


def replay(case):
    w = World()
    for op in from_json(case["ops"]):
        try:
            w.apply(op)
        except Exception as e:
            w.fail('raised/' + str(op[0]), 'operation succeeds', f'{type(e).__name__}: {e}'[:200])
        if w.fails:
            break
    if not w.fails and w.cols is not None:
        try:
            w.final()
        except Exception as e:
            w.fail('raised/final', 'observation succeeds', f'{type(e).__name__}: {e}'[:200])
    return [(f[0], f[1], f[2]) for f in w.fails[:3]]
