"""C18 - the file cache is linearizable under concurrent get, update and unload.

The real FileCache runs with its lock, executor, clock and file-system calls replaced (attribute assignment from here) by
versions driven by the deterministic cooperative scheduler of vk/sched.py.  Generated: client programs and the schedule.
Oracle: every call returns; the history is linearizable against a register per file; at quiescence disk, cache and the
last successful update agree and the byte accounting equals the sum of the entries.  DESIGN.md 3/C18.
"""
import itertools
import os as real_os

from hypothesis import given, strategies as st

from . import core
from .sched import Sched, SLock, SExecutor, Deadlock

LEVEL = "exploration"
RULE = ("2-3 client threads x 1-2 operations each from get(f) / update(f, v) / unload(f) on 1-2 files (initial contents on "
        "disk or absent, cache limit fits everything / 4, 5 or 8 bytes with contents of 1-8 bytes, some filling it exactly) x a schedule (either <= 60 dense choices or <= 4 preemption points anywhere in the first 80 steps) at the yield points (lock "
        "acquire and release, task submission, task start, future wait, exists / isfile / isdir / stat, getsize, makedirs, open, read, write, close, fsync) "
        "with 0 = continue; non-trivial = two operations on the same file overlap in time and at least one is an update; "
        "distinct by (programs, schedule prefix actually consumed)")
ASSUMPTIONS = [
    "the file system is an in-memory model with POSIX behaviour at the granularity used: open('wb') truncates at once, written bytes are buffered in the handle and reach the file at flush / close at the handle's offset, "
    "read returns the bytes present at that moment, getsize/exists look at the current bytes",
    "documented exceptions are outcomes, not violations: FileNotFoundError (no such file) and MemoryError (larger than the limit)",
    "linearizability is decided by brute force over all orders of the <= 6 operations that respect real-time order",
    "a schedule is a list of small integers; the run is a pure function of (programs, schedule)",
]


# ------------------------------------------------------------------ in-memory file system with yield points

class MemFS:
    def __init__(self, sched, files):
        self.sched = sched
        self.files = dict(files)
        self.gaps = []           # os / os.path names used by the code under test that the model does not cover

    def open(self, path, mode='rb'):
        self.sched.yield_point('open ' + mode)
        if 'w' in mode:
            self.files[path] = b''          # truncation happens at open
            return MemFile(self, path, True)
        if path not in self.files:
            if any(f.startswith(path.rstrip('/') + '/') for f in self.files) or path.rstrip('/') == ROOT:
                raise IsADirectoryError(path)
            raise FileNotFoundError(path)
        return MemFile(self, path, False)


class MemFile:
    """a buffered binary file object, as open() returns: written bytes reach the file at flush / close, at this handle's offset"""

    def __init__(self, fs, path, writing):
        self.fs, self.path, self.writing = fs, path, writing
        self.buffer = b''
        self.pos = 0

    def __enter__(self):
        return self

    def __exit__(self, *a):
        self.close()
        return False

    def read(self):
        self.fs.sched.yield_point('read')
        return self.fs.files.get(self.path, b'')

    def write(self, data):
        self.fs.sched.yield_point('write')
        self.buffer += bytes(data)
        return len(data)

    def _commit(self):
        if self.buffer:
            cur = self.fs.files.get(self.path, b'')
            cur = cur.ljust(self.pos, b'\0')
            self.fs.files[self.path] = cur[:self.pos] + self.buffer + cur[self.pos + len(self.buffer):]
            self.pos += len(self.buffer)
            self.buffer = b''

    def flush(self):
        self.fs.sched.yield_point('flush')
        self._commit()

    def fileno(self):
        return 3

    def close(self):
        self.fs.sched.yield_point('close')
        self._commit()


class ShimGap(AttributeError):
    """the code under test used an os / os.path name the in-memory model does not cover: a harness gap, never a verdict"""


PURE_PATH = ('join', 'dirname', 'basename', 'split', 'splitext', 'normpath', 'isabs', 'sep', 'relpath', 'commonpath')


class ShimPath:
    """os.path over MemFS: the predicates that look at the file system are yield points answered from the model (only regular
    files under ROOT exist; their parents are directories); pure string functions are the real ones"""

    def __init__(self, fs):
        self.fs = fs
        for n in PURE_PATH:
            setattr(self, n, getattr(real_os.path, n))

    def __getattr__(self, name):
        if name.startswith('_'):
            raise AttributeError(name)
        self.fs.gaps.append('os.path.' + name)
        raise ShimGap('os.path.' + name)

    def abspath(self, p):
        return real_os.path.normpath(real_os.path.join(ROOT, p))

    realpath = abspath

    def _is_dir(self, p):
        p = p.rstrip('/')
        return p == ROOT or ROOT.startswith(p + '/') or any(f.startswith(p + '/') for f in self.fs.files)

    def isfile(self, p):
        self.fs.sched.yield_point('isfile')
        return p in self.fs.files

    def isdir(self, p):
        self.fs.sched.yield_point('isdir')
        return self._is_dir(p)

    def exists(self, p):
        self.fs.sched.yield_point('exists')
        return p in self.fs.files or self._is_dir(p)

    lexists = exists

    def islink(self, p):
        return False

    def getsize(self, p):
        self.fs.sched.yield_point('getsize')
        if p not in self.fs.files:
            if self._is_dir(p):
                return 4096
            raise FileNotFoundError(p)
        return len(self.fs.files[p])


class ShimStat:
    def __init__(self, size, is_file):
        self.st_size = size
        self.st_mode = 0o100644 if is_file else 0o040755


class ShimOS:
    def __init__(self, fs):
        self.fs = fs
        self.path = ShimPath(fs)
        self.sep = real_os.sep
        self.fspath = real_os.fspath

    def __getattr__(self, name):
        if name.startswith('_'):
            raise AttributeError(name)
        self.fs.gaps.append('os.' + name)
        raise ShimGap('os.' + name)

    def makedirs(self, p, exist_ok=False):
        self.fs.sched.yield_point('makedirs')

    def stat(self, p):
        self.fs.sched.yield_point('stat')
        if p in self.fs.files:
            return ShimStat(len(self.fs.files[p]), True)
        if self.path._is_dir(p):
            return ShimStat(4096, False)
        raise FileNotFoundError(p)

    def fsync(self, fd):
        self.fs.sched.yield_point('fsync')

    fdatasync = fsync

    def getcwd(self):
        return ROOT


class ShimTime:
    def __init__(self, sched):
        self.sched = sched

    def time_ns(self):
        return self.sched.now()

    def time(self):
        return float(self.sched.now())

    monotonic = perf_counter = time
    monotonic_ns = perf_counter_ns = time_ns

    def sleep(self, seconds):
        self.sched.yield_point('sleep')

    def __getattr__(self, name):
        if name.startswith('_'):
            raise AttributeError(name)
        self.sched.gaps.append('time.' + name)
        raise AttributeError('time.' + name)


# ------------------------------------------------------------------ one run

ROOT = '/mem'


def run_case(files, limit, programs, schedule):
    """files: {name: bytes|None}; programs: list of lists of ops ('get', f) / ('update', f, v) / ('unload', f).
    Returns dict(history, deadlock, final, trace_len, preemptions)."""
    core.setup_repo_path()
    from klongpy.db import file_cache as fc
    sched = Sched(schedule)
    fs = MemFS(sched, {real_os.path.join(ROOT, n): c for n, c in files.items() if c is not None})
    saved = (fc.os, fc.time, getattr(fc, 'open', None))
    fc.os = ShimOS(fs)
    fc.time = ShimTime(sched)
    fc.open = fs.open
    try:
        cache = fc.FileCache(max_memory=limit, root_path=ROOT)
        cache.executor.shutdown(wait=False)
        cache.file_futures_lock = SLock(sched, 'cache lock')
        cache.executor = SExecutor(sched)
        history = []            # [client, index, op, invoked_at, returned_at, outcome]

        def client(ci, ops):
            def body():
                for oi, op in enumerate(ops):
                    sched.yield_point('invoke')
                    rec = [ci, oi, op, sched.now(), None, None]
                    history.append(rec)
                    try:
                        if op[0] == 'get':
                            out = ('ok', bytes(cache.get_file(op[1])))
                        elif op[0] == 'update':
                            out = ('ok', bool(cache.update_file(op[1], op[2], use_fsync=(len(op) > 3 and op[3]))))
                        else:
                            cache.unload_file(op[1])
                            out = ('ok', None)
                    except SystemExit:
                        raise
                    except (FileNotFoundError, MemoryError) as e:
                        out = ('exc', type(e).__name__)
                    except BaseException as e:  # noqa
                        out = ('bug', type(e).__name__ + ': ' + str(e)[:60])
                    rec[4] = sched.now()
                    rec[5] = out
            return body
        for ci, ops in enumerate(programs):
            sched.spawn(f'client{ci}', client(ci, ops))
        deadlock = None
        try:
            sched.run()
        except Deadlock as e:
            deadlock = str(e)
        gaps = sorted(set(fs.gaps) | set(sched.gaps))
        if gaps:
            raise core.HarnessError("C18 models (file system, lock, future, executor, clock) do not cover " + ', '.join(gaps) +
                                    " used by klongpy/db/file_cache.py: extend vk/c18_linear.py / vk/sched.py")
        final = None
        if deadlock is None:
            # quiescent observations, sequentially (no scheduler involvement: everything is done)
            sched.current = None
            final = {}
            for n in files:
                p = real_os.path.join(ROOT, n)
                disk = fs.files.get(p)
                entry = cache.file_futures.get(n)
                cached = None
                if entry is not None and entry[2].done() and entry[2]._error is None:
                    cached = entry[2]._result
                final[n] = {"disk": disk, "cached": cached, "entry": None if entry is None else (entry[0], entry[1])}
            final['__usage__'] = cache.current_memory_usage
            final['__sum__'] = sum(e[1] for e in cache.file_futures.values())
            final['__heap__'] = sorted(fn for _, fn in cache.file_access_times)
        return {"history": history, "deadlock": deadlock, "final": final, "steps": sched.steps, "preemptions": sched.preemptions,
                "consumed": min(sched.pos, len(schedule)), "trace": sched.trace}
    finally:
        fc.os, fc.time = saved[0], saved[1]
        if saved[2] is None:
            try:
                del fc.open
            except AttributeError:
                pass
        else:
            fc.open = saved[2]


# ------------------------------------------------------------------ oracle

ABSENT = ('absent',)


def linearizable(history, files, limit):
    """search an order of the operations, consistent with real-time order, that a register per file explains;
    returns (ok, final register values of some witness | None)"""
    ops = [h for h in history if h[5] is not None]
    n = len(ops)
    init = {f: (ABSENT if c is None else c) for f, c in files.items()}

    def explains(op, out, reg):
        kind, f = op[0], op[1]
        if kind == 'get':
            cur = reg[f]
            if cur is ABSENT:
                return out == ('exc', 'FileNotFoundError'), reg
            if len(cur) > limit:
                return out == ('exc', 'MemoryError'), reg
            return out == ('ok', cur), reg
        if kind == 'update':
            if len(op[2]) > limit:
                return out == ('exc', 'MemoryError'), reg
            if out == ('ok', True):
                r = dict(reg)
                r[f] = op[2]
                return True, r
            return out == ('ok', False), reg
        return out == ('ok', None), reg

    witnesses = []

    def search(done, reg, order):
        if len(done) == n:
            witnesses.append(reg)
            return True
        found = False
        for i in range(n):
            if i in done:
                continue
            # real-time order: i may go next only if no other pending op returned before i was invoked
            if any(j not in done and j != i and ops[j][4] < ops[i][3] for j in range(n)):
                continue
            ok, r2 = explains(ops[i][2], ops[i][5], reg)
            if ok and search(done | {i}, r2, order + [i]):
                found = True
        return found
    ok = search(frozenset(), init, [])
    return ok, witnesses


def overlapping_update(history):
    ops = [h for h in history if h[4] is not None]
    for a, b in itertools.combinations(ops, 2):
        if a[2][1] == b[2][1] and a[3] < b[4] and b[3] < a[4] and 'update' in (a[2][0], b[2][0]) and a[0] != b[0]:
            return True
    return False


def fmt_history(history):
    return [f"client{h[0]}: {h[2][0]}({', '.join(repr(x) for x in h[2][1:])}) [{h[3]}..{h[4]}] -> {h[5]}" for h in history]


def judge(stats, report, files, limit, programs, schedule):
    res = run_case(files, limit, programs, schedule)
    hist = res['history']
    used = tuple(schedule[:res['consumed']])
    kinds = sorted({op[0] for p in programs for op in p})
    classes = ['clients:%d' % len(programs), 'files:%d' % len(files), 'limit:' + ('small' if limit <= 8 else 'all'),
               'preemptions:%s' % (res['preemptions'] if res['preemptions'] < 4 else '4+')] + ['op:' + k for k in kinds]
    nontriv = overlapping_update(hist)
    if nontriv:
        classes.append('overlapping update')
    if any(op[0] == 'update' and len(op[2]) == limit for p in programs for op in p) or any(c is not None and len(c) == limit for c in files.values()):
        classes.append('contents fill the limit exactly')
    stats.case(('c18', repr(files), limit, repr(programs), used), nontrivial=nontriv, classes=classes,
               sample={"files": {k: (None if v is None else v.decode()) for k, v in files.items()}, "limit": limit,
                       "history": fmt_history(hist)})
    stats.extra['max_steps'] = max(stats.extra.get('max_steps', 0), res['steps'])
    case = {"files": {k: (None if v is None else v.decode()) for k, v in files.items()}, "limit": limit,
            "programs": [[[o[0], o[1]] + ([o[2].decode()] if o[0] == 'update' else []) for o in p] for p in programs],
            "schedule": list(used)}
    shape = '+'.join(sorted({op[0] for p in programs for op in p}))
    if res['deadlock'] is not None:
        report('deadlock/' + shape, case, expected='every call returns', observed=res['deadlock'] + ' | ' + '; '.join(fmt_history(hist)))
        return
    bugs = [h for h in hist if h[5] and h[5][0] == 'bug']
    if bugs:
        what = bugs[0][5][1].split(':')[0]
        report(f'internal-error/{what}/{bugs[0][2][0]}/' + shape, case, expected='a result or a documented exception', observed='; '.join(fmt_history(hist)))
        return
    ok, witnesses = linearizable(hist, files, limit)
    if not ok:
        # classify: which get returned something never current
        report('not-linearizable/' + shape, case, expected='some order of the calls explained by one register per file', observed='; '.join(fmt_history(hist)))
        return
    fin = res['final']
    if fin['__usage__'] != fin['__sum__']:
        report('accounting/' + shape, case, expected=f"usage == sum of entries ({fin['__sum__']})", observed=f"usage {fin['__usage__']}; " + '; '.join(fmt_history(hist)))
        return
    for f in files:
        st_ = fin[f]
        finals = {w[f] for w in witnesses}
        disk = ABSENT if st_['disk'] is None else st_['disk']
        if disk not in finals:
            report('final-disk/' + shape, case, expected=f"disk holds the last successful update: one of {sorted(map(repr, finals))}",
                   observed=f"disk {disk!r}; " + '; '.join(fmt_history(hist)))
            return
        if st_['cached'] is not None and bytes(st_['cached']) != st_['disk']:
            report('final-cache/' + shape, case, expected=f"cache == disk ({st_['disk']!r})", observed=f"cached {bytes(st_['cached'])!r}; " + '; '.join(fmt_history(hist)))
            return
        if st_['entry'] is not None and st_['entry'][0]:
            report('final-writing-flag/' + shape, case, expected='no entry marked writing at quiescence', observed=str(st_['entry']))
            return


# ------------------------------------------------------------------ generators

FILES = ['f', 'g']
VALUES = [b'A', b'BB', b'CCC', b'DDDD', b'EEEEE', b'FFFFFFFF']


@st.composite
def cases(draw):
    nfiles = draw(st.sampled_from([1, 1, 2]))
    names = FILES[:nfiles]
    files = {n: draw(st.sampled_from([b'i0', b'init', b'initial8', None])) for n in names}
    limit = draw(st.sampled_from([1 << 20, 1 << 20, 4, 5, 8]))     # small limits are filled exactly by some contents
    nclients = draw(st.sampled_from([2, 2, 3]))
    vals = iter(draw(st.permutations(VALUES)))
    programs = []
    for _ in range(nclients):
        ops = []
        for _ in range(draw(st.sampled_from([1, 2]))):
            kind = draw(st.sampled_from(['get', 'get', 'update', 'update', 'unload']))
            f = draw(st.sampled_from(names))
            if kind == 'update':
                v = next(vals, None)
                if v is None:
                    kind = 'get'
                else:
                    ops.append(('update', f, v))
                    continue
            ops.append((kind, f))
        programs.append(ops)
    if draw(st.booleans()):
        schedule = draw(st.lists(st.sampled_from([0, 0, 0, 0, 1, 1, 2]), max_size=60))
    else:
        # bounded preemption: at most 4 switches away from a task that could continue, anywhere in the run
        points = draw(st.lists(st.tuples(st.integers(0, 79), st.integers(1, 3)), max_size=4))
        schedule = [0] * 80
        for at, choice in points:
            schedule[at] = choice
        while schedule and schedule[-1] == 0:
            schedule.pop()
    return files, limit, programs, schedule


def shard(seed_value, n):
    stats = core.Stats()
    f = core.Findings("C18")

    def make_test(report):
        @given(cases())
        def t(c):
            judge(stats, report, *c)
        return t
    core.hyp_collect(stats, make_test, seed_value, n, rounds=12, is_known=lambda k: f.match(k) is not None)
    return stats


def check(run):
    quick = run.tier == 'quick'
    run.absorb(core.pool_map('vk.c18_linear', 'shard', [(run.seed * 1000 + i, 400 if quick else 8000) for i in range(16)]))
    run.min_class_fraction = {'overlapping update': 0.1}


def replay(case):
    out = []
    stats = core.Stats()

    def report(fkey, case_, expected=None, observed=None, note=None):
        out.append((fkey, expected, observed))
    files = {k: (None if v is None else v.encode()) for k, v in case['files'].items()}
    programs = [[tuple([o[0], o[1]] + ([o[2].encode()] if o[0] == 'update' else [])) for o in p] for p in case['programs']]
    judge(stats, report, files, case['limit'], programs, list(case['schedule']))
    return out
