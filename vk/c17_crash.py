"""C17 - a completed key-value set survives a crash; an interrupted one harms no other key.

While generated sequences of sets run on a real KeyValueStorage the harness records the trace of
file-system operations issued by klongpy.db.file_cache at the raw (system-call) level; every
prefix of the trace x every loss choice is materialised as a crash image and reopened.  A
second mode kills a real child process at each operation boundary.  DESIGN.md 3/C17.
"""
import builtins
import io
import os
import pickle
import shutil
import signal
import subprocess
import sys
import tempfile
import threading

from hypothesis import given, strategies as st

from . import core
from .canon import to_canon, ceq, show, from_json, I, R, S, L, D

LEVEL = "fault_enumeration"
RULE = ("sequence of 1-6 sets over 1-4 keys (new keys, overwrites - every fourth by draw with a value of the same serialised size and other contents -, nested paths that create directories, values from 5 bytes to 300 kB) "
        "on a KeyValueStorage; crash points = every prefix of the recorded raw file-system trace (mkdir, open/truncate, "
        "write, fsync, close); loss choices per crash point = none lost / all unsynced lost / truncation persisted but data "
        "lost / a byte prefix (1, half, all-but-one) of the unsynced data; each image is reopened with a fresh store; "
        "additionally a real child process is SIGKILLed at every operation boundary; non-trivial = crash point strictly "
        "inside a set that overwrites an existing key or creates a directory, with at least one other completed key; "
        "distinct by (set sequence, crash point, loss choice)")
ASSUMPTIONS = [
    "persistence model: fsync(fd) makes the file's current content durable together with the namespace operations its path "
    "depends on (creation of the file and of its ancestor directories) - ext4/xfs/btrfs behaviour; strict POSIX (separate "
    "directory fsync) is not required",
    "data handed to write(2) but not fsynced may be lost entirely, partially (byte prefix) or not at all; an unsynced O_TRUNC may persist without the data",
    "the trace is recorded at the raw level: the replacement open() returns a genuine io.BufferedWriter over a tracing io.FileIO, "
    "so a write event is recorded when bytes reach the descriptor, not when f.write is called",
    "kill mode tests process death only (the OS page cache survives); power-loss behaviour comes from the trace model",
]

KEYS = ['a', 'b', 'dir/x', 'dir/y', 'deep/er/z', 'user:1', 'user_1']     # distinct keys stay distinct files
VALS = [I(7), I(8), S('v'), S('w'), L(I(1), I(2), I(3)), D([(I(1), S('one'))]), S('x' * 300), L(*[R(i + 0.5) for i in range(40)]),
        S('big' * 3000), S('huge' * 5000), S('k' * 70000), S('m' * 150000), S('q' * 300000),
        I(9), S('y' * 300), S('gib' * 3000), L(I(3), I(2), I(1))]      # same serialised size as an earlier member, other contents


def _size(v):
    import pickle
    return len(pickle.dumps(to_py(v)))


@st.composite
def sequences(draw):
    """1-6 sets over 1-4 of the keys; every fourth overwrite (by draw) is steered to a value of the same serialised size as
    the one on disk but with other contents (an implementation may treat a same-size rewrite differently)"""
    keys = draw(st.lists(st.sampled_from(KEYS), min_size=1, max_size=4, unique=True))
    seq, last = [], {}
    for _ in range(draw(st.integers(1, 6))):
        k = draw(st.sampled_from(keys))
        fam = [v for v in VALS if k in last and v != last[k] and _size(v) == _size(last[k])]
        if fam and draw(st.integers(0, 3)) == 0:
            v = draw(st.sampled_from(fam))
        else:
            v = draw(st.sampled_from(VALS))
        seq.append((k, v))
        last[k] = v
    return seq


def same_size_overwrite(seq, upto):
    last = {}
    hit = False
    for k, v in seq[:upto]:
        if k in last and v != last[k] and _size(v) == _size(last[k]):
            hit = True
        last[k] = v
    return hit


def to_py(c):
    from .c11_readwrite import to_py as tp
    return tp(c)


# ----------------------------------------------------------------------------- tracing layer

class Tracer:
    def __init__(self, root, on_event=None):
        self.root = root
        self.events = []
        self.fds = {}
        self.lock = threading.Lock()
        self.on_event = on_event

    def rel(self, path):
        return os.path.relpath(path, self.root)

    def emit(self, *ev):
        with self.lock:
            self.events.append(ev)
        if self.on_event is not None:
            self.on_event(len(self.events), ev)

    def make_open(self):
        tracer = self

        class TracingFileIO(io.FileIO):
            def __init__(self, path, mode):
                self._rel = tracer.rel(path)
                self._append = 'a' in mode
                # 'w' truncates, 'x' creates; 'r+' / 'a' keep what is there
                tracer.emit('open_trunc' if ('w' in mode or 'x' in mode) else 'open_keep', self._rel)
                super().__init__(path, mode)
                tracer.fds[self.fileno()] = self._rel

            def write(self, b):
                off = None if self._append else self.tell()
                n = super().write(b)
                tracer.emit('write', self._rel, bytes(b[:n]), off)
                return n

            def truncate(self, size=None):
                r = super().truncate(size)
                tracer.emit('truncate', self._rel, r)
                return r

            def close(self):
                if not self.closed:
                    tracer.fds.pop(self.fileno(), None)
                    super().close()
                    tracer.emit('close', self._rel)

        def open_(file, mode='r', *a, **kw):
            # every binary mode that can write goes through the tracing raw file, under the same buffered layer
            # builtins.open would put on top of it
            if 'b' in mode and any(c in mode for c in 'wax+'):
                raw = TracingFileIO(file, mode.replace('b', ''))
                if '+' in mode:
                    return io.BufferedRandom(raw)
                return io.BufferedWriter(raw)
            return builtins.open(file, mode, *a, **kw)
        return open_

    def make_os(self):
        tracer = self

        class OsProxy:
            path = os.path

            def __getattr__(self, name):
                return getattr(os, name)

            def makedirs(self, p, exist_ok=False):
                missing = []
                q = p
                while q and not os.path.isdir(q):
                    missing.append(q)
                    q = os.path.dirname(q)
                for m in reversed(missing):
                    os.mkdir(m)
                    tracer.emit('mkdir', tracer.rel(m))
                if not missing and not exist_ok:
                    raise FileExistsError(p)

            def fsync(self, fd):
                os.fsync(fd)
                tracer.emit('fsync', tracer.fds.get(fd, '?'))

            def fdatasync(self, fd):
                os.fdatasync(fd)
                tracer.emit('fsync', tracer.fds.get(fd, '?'))

            def _rename(self, fn, src, dst, *a, **kw):
                fn(src, dst, *a, **kw)
                tracer.emit('rename', tracer.rel(src), tracer.rel(dst))

            def replace(self, src, dst, *a, **kw):
                self._rename(os.replace, src, dst, *a, **kw)

            def rename(self, src, dst, *a, **kw):
                self._rename(os.rename, src, dst, *a, **kw)
        return OsProxy()


class traced:
    """Context manager installing the tracing open/os into klongpy.db.file_cache."""

    def __init__(self, tracer):
        self.tracer = tracer

    def __enter__(self):
        import klongpy.db.file_cache as fc
        self.fc = fc
        self.had_open = 'open' in fc.__dict__
        self.old_open = fc.__dict__.get('open')
        self.old_os = fc.os
        fc.open = self.tracer.make_open()
        fc.os = self.tracer.make_os()
        return self.tracer

    def __exit__(self, *exc):
        if self.had_open:
            self.fc.open = self.old_open
        else:
            del self.fc.open
        self.fc.os = self.old_os
        return False


def record(seq):
    """Run the sets of seq [(key, value canon)] on a real store; return (events, model after each set)."""
    from klongpy.db.sys_fn_kvs import KeyValueStorage
    root = tempfile.mkdtemp(prefix='vk_c17r_')
    tr = Tracer(root)
    try:
        with traced(tr):
            store = KeyValueStorage(root)
            for i, (key, v) in enumerate(seq):
                tr.emit('begin', i, key)
                store.set(key, to_py(v))
                tr.emit('returned', i, key)
            store.cache.executor.shutdown(wait=True)
        return list(tr.events)
    finally:
        shutil.rmtree(root, ignore_errors=True)


# ----------------------------------------------------------------------------- crash images

LOSS = ['none', 'all', 'trunc-only', 'prefix:1', 'prefix:half', 'prefix:n-1']


def _apply(base, writes, limit=None):
    """base bytes with the (offset, data) writes applied in order; at most `limit` bytes of write data in total"""
    buf = bytearray(base)
    left = limit
    for off, data in writes:
        if left is not None:
            if left <= 0:
                break
            data = data[:left]
            left -= len(data)
        if off is None:
            off = len(buf)
        if off > len(buf):
            buf.extend(b'\0' * (off - len(buf)))
        buf[off:off + len(data)] = data
    return bytes(buf)


def image(events, p, loss):
    """File contents (relpath -> bytes) on disk after a crash at prefix p under the loss choice; None if the
    choice does not apply (no unsynced data).  Writes are positional (a file opened without truncation is
    overwritten in place); a rename moves the file with whatever of it was durable."""
    durable, cur, trunc_unsynced, unsynced = {}, {}, {}, {}
    for ev in events[:p]:
        t = ev[0]
        if t == 'open_trunc':
            f = ev[1]
            cur[f] = b''
            trunc_unsynced[f] = True
            unsynced[f] = []
        elif t == 'open_keep':
            f = ev[1]
            cur.setdefault(f, durable.get(f, b''))
            unsynced.setdefault(f, [])
        elif t == 'write':
            f = ev[1]
            off = ev[3] if len(ev) > 3 else None
            cur[f] = _apply(cur.get(f, b''), [(off, ev[2])])
            unsynced.setdefault(f, []).append((off, ev[2]))
        elif t == 'truncate':
            f = ev[1]
            cur[f] = cur.get(f, b'')[:ev[2]]
            if ev[2] == 0:
                trunc_unsynced[f] = True
                unsynced[f] = []
        elif t == 'fsync':
            f = ev[1]
            if f in cur:
                durable[f] = cur[f]
                trunc_unsynced[f] = False
                unsynced[f] = []
        elif t == 'rename':
            src, dst = ev[1], ev[2]
            for m in (cur, durable, trunc_unsynced, unsynced):
                if src in m:
                    m[dst] = m.pop(src)
                elif m is not durable:
                    m.pop(dst, None)
    dirty = [f for f in cur if cur[f] != durable.get(f)]
    if not dirty and loss != 'none':
        return None
    out = dict(durable)
    for f in dirty:
        if loss == 'none':
            out[f] = cur[f]
        elif loss == 'all':
            if f in durable:
                out[f] = durable[f]
            else:
                out.pop(f, None)
        elif loss == 'trunc-only':
            if not trunc_unsynced.get(f):
                return None
            out[f] = b''
        else:
            writes = unsynced.get(f, [])
            n = sum(len(d) for _, d in writes)
            k = {'prefix:1': 1, 'prefix:half': n // 2, 'prefix:n-1': n - 1}[loss]
            if n < 2 or k <= 0 or k >= n:
                return None
            base = b'' if trunc_unsynced.get(f) else durable.get(f, b'')
            out[f] = _apply(base, writes, k)
    return out


def expectations(events, p, seq):
    """(completed model key->value canon, in-flight key or None) at crash prefix p."""
    model = {}
    inflight = None
    for ev in events[:p]:
        if ev[0] == 'begin':
            inflight = ev[2]
        elif ev[0] == 'returned':
            model[ev[2]] = seq[ev[1]][1]
            inflight = None
    return model, inflight


def check_image(files, model, inflight):
    """Open the image with a fresh store; return list of (kind, expected, observed)."""
    from klongpy.db.sys_fn_kvs import KeyValueStorage
    from klongpy.core import KLONG_UNDEFINED
    root = tempfile.mkdtemp(prefix='vk_c17i_')
    fails = []
    try:
        for f, data in files.items():
            path = os.path.join(root, f)
            os.makedirs(os.path.dirname(path), exist_ok=True)
            with open(path, 'wb') as fh:
                fh.write(data)
        store = KeyValueStorage(root)
        try:
            for key in KEYS:
                if key == inflight:
                    try:
                        store.get(key)          # anything goes, but it must not hang
                    except Exception:
                        pass
                    continue
                try:
                    got = store.get(key)
                    err = None
                except FileNotFoundError:
                    got, err = KLONG_UNDEFINED, None
                except Exception as e:
                    got, err = None, f'{type(e).__name__}: {e}'[:100]
                if key in model:
                    want = to_canon(to_py(model[key]))
                    if err is not None:
                        fails.append(('completed-set-lost', f'{key!r} reads {show(want)[:60]}', 'raises ' + err))
                    elif got is KLONG_UNDEFINED or not ceq(to_canon(got), want, rtol=0, atol=0):
                        fails.append(('completed-set-lost', f'{key!r} reads {show(want)[:60]}', show(to_canon(got))[:80]))
                else:
                    if err is not None:
                        fails.append(('other-key-fails', f'{key!r} (never completed) is absent', 'raises ' + err))
                    elif got is not KLONG_UNDEFINED:
                        fails.append(('other-key-appears', f'{key!r} (never completed) is absent', show(to_canon(got))[:80]))
        finally:
            store.cache.executor.shutdown(wait=True)
    finally:
        shutil.rmtree(root, ignore_errors=True)
    return fails


def sequence_class(seq, events, p):
    """non-trivial: crash strictly inside a set that overwrites an existing key or creates a directory,
    with at least one other completed key."""
    model, inflight = expectations(events, p, seq)
    if inflight is None:
        return False, []
    cls = ['crash-inside-set']
    others = [k for k in model if k != inflight]
    overwrite = inflight in model
    idx = max(ev[1] for ev in events[:p] if ev[0] == 'begin')
    start = max(i for i, ev in enumerate(events[:p]) if ev[0] == 'begin')
    mk = any(ev[0] == 'mkdir' for ev in events[start:])
    if overwrite:
        cls.append('inflight-overwrites')
    if mk:
        cls.append('inflight-creates-dir')
    return bool(others) and (overwrite or mk), cls


def judge_sequence(stats, report, seq):
    events = record(seq)
    seen = set()
    for p in range(len(events) + 1):
        model, inflight = expectations(events, p, seq)
        nontriv, cls = sequence_class(seq, events, p)
        if same_size_overwrite(seq, sum(1 for ev in events[:p] if ev[0] == 'begin')):
            cls = cls + ['same-size-overwrite']
        for loss in LOSS:
            files = image(events, p, loss)
            if files is None:
                continue
            sig = (p, tuple(sorted((f, len(d), hash(d)) for f, d in files.items())))
            if sig in seen:
                continue
            seen.add(sig)
            fails = check_image(files, model, inflight)
            stats.case((tuple(seq), p, loss), nontrivial=nontriv, classes=cls + ['loss:' + loss],
                       sample={"sets": [(k, show(v)[:30]) for k, v in seq], "crash_after": [_ev(e) for e in events[max(0, p - 3):p]],
                               "loss": loss, "inflight": inflight})
            if fails:
                f = fails[0]
                synced = 'after-fsync' if any(e[0] == 'fsync' for e in events[:p]) else 'before-any-fsync'
                last = events[p - 1][0] if p else 'start'
                report(f"{f[0]}/loss={loss.split(':')[0]}/last-op={last}/inflight={'yes' if inflight else 'no'}",
                       {"seq": [(k, v) for k, v in seq], "crash_prefix": p, "loss": loss,
                        "trace": [_ev(e) for e in events[:p]]}, expected=f[1], observed=f[2])
                return


def _ev(e):
    return [x if not isinstance(x, bytes) else f'<{len(x)} bytes>' for x in e]


def shard(seed_value, n):
    stats = core.Stats()
    f = core.Findings("C17")

    def make_test(report):
        @given(sequences())
        def t(seq):
            judge_sequence(stats, report, [tuple(x) for x in seq])
        return t
    core.hyp_collect(stats, make_test, seed_value, n, rounds=6, is_known=lambda k: f.match(k) is not None)
    return stats


# ----------------------------------------------------------------------------- real kill mode

CHILD = r'''
import os, signal, sys, json
sys.path.insert(0, %(repo)r)
sys.path.insert(0, %(verif)r)
import warnings; warnings.filterwarnings("ignore")
from vk import core
from vk.c17_crash import Tracer, traced, to_py
from vk.canon import from_json
from klongpy.db.sys_fn_kvs import KeyValueStorage
root, kill_at, seq = sys.argv[1], int(sys.argv[2]), from_json(json.loads(sys.argv[3]))
log = open(os.path.join(root, '..', 'progress.log'), 'a', buffering=1)
def on_event(n, ev):
    if ev[0] in ('begin', 'returned'):
        log.write(json.dumps([ev[0], ev[1], ev[2]]) + "\n"); log.flush(); os.fsync(log.fileno())
    if n == kill_at:
        os.kill(os.getpid(), signal.SIGKILL)
tr = Tracer(root, on_event)
with traced(tr):
    store = KeyValueStorage(root)
    for i, (key, v) in enumerate(seq):
        tr.emit('begin', i, key)
        store.set(key, to_py(v))
        tr.emit('returned', i, key)
print("DONE", len(tr.events))
'''


def kill_run(seq, kill_at):
    """Run seq in a child that SIGKILLs itself at its kill_at-th traced operation; inspect the directory."""
    import json
    base = tempfile.mkdtemp(prefix='vk_c17k_')
    root = os.path.join(base, 'store')
    os.makedirs(root)
    try:
        code = CHILD % {'repo': core.REPO_DIR, 'verif': core.VERIF_DIR}
        env = dict(os.environ, PYTHONHASHSEED='0', OMP_NUM_THREADS='1')
        pr = subprocess.run([sys.executable, '-c', code, root, str(kill_at), json.dumps(core.jsonable(seq))],
                            capture_output=True, text=True, timeout=120, env=env)
        done = 'DONE' in pr.stdout
        if not done and pr.returncode != -signal.SIGKILL:
            raise core.HarnessError(f"kill child failed rc={pr.returncode}: {pr.stderr[-400:]}")
        model, inflight = {}, None
        plog = os.path.join(base, 'progress.log')
        if os.path.exists(plog):
            for line in open(plog):
                ev = json.loads(line)
                if ev[0] == 'begin':
                    inflight = ev[2]
                else:
                    model[ev[2]] = seq[ev[1]][1]
                    inflight = None
        files = {}
        for dp, _, fns in os.walk(root):
            for fn in fns:
                p = os.path.join(dp, fn)
                files[os.path.relpath(p, root)] = open(p, 'rb').read()
        return done, files, model, inflight
    finally:
        shutil.rmtree(base, ignore_errors=True)


def kill_shard(seed_value, nseq):
    stats = core.Stats()
    f = core.Findings("C17")

    def make_test(report):
        @given(st.lists(st.tuples(st.sampled_from(KEYS), st.sampled_from(VALS[:8])), min_size=2, max_size=4))
        def t(seq):
            seq = [tuple(x) for x in seq]
            n_events = len(record(seq))
            for kill_at in range(1, n_events + 1):
                done, files, model, inflight = kill_run(seq, kill_at)
                fails = check_image(files, model, inflight)
                stats.case(('kill', tuple(seq), kill_at), nontrivial=inflight is not None and bool([k for k in model if k != inflight]),
                           classes=['mode:kill'], sample={"mode": "kill", "sets": [(k, show(v)[:30]) for k, v in seq], "kill_at": kill_at,
                                                          "inflight": inflight})
                if fails:
                    fl = fails[0]
                    report(f"kill/{fl[0]}/inflight={'yes' if inflight else 'no'}",
                           {"mode": "kill", "seq": seq, "kill_at": kill_at}, expected=fl[1], observed=fl[2])
                    return
        return t
    core.hyp_collect(stats, make_test, seed_value, nseq, rounds=3, shrink=False, is_known=lambda k: f.match(k) is not None)
    return stats


def check(run):
    quick = run.tier == 'quick'
    jobs = [(run.seed * 1000 + i, 12 if quick else 200) for i in range(14)]
    run.absorb(core.pool_map('vk.c17_crash', 'shard', jobs))
    run.absorb(core.pool_map('vk.c17_crash', 'kill_shard', [(run.seed * 1000 + 100 + i, 1 if quick else 12) for i in range(2 if quick else 16)]))
    run.min_class_fraction = {'inflight-overwrites': 0.05, 'inflight-creates-dir': 0.05, 'same-size-overwrite': 0.02}


def replay(case):
    seq = [tuple(x) for x in from_json(case["seq"])]
    if case.get("mode") == 'kill':
        done, files, model, inflight = kill_run(seq, case["kill_at"])
        return check_image(files, model, inflight)
    events = record(seq)
    p = min(case["crash_prefix"], len(events))
    files = image(events, p, case["loss"])
    if files is None:
        return []
    model, inflight = expectations(events, p, seq)
    return check_image(files, model, inflight)
