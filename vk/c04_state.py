"""C04 - evaluation depends only on program text and variable state; values are immutable.

Rule-based histories over a statement grammar.  Before every statement S the World snapshots
interpreter A, builds a fresh interpreter B loaded with a copy of that state (literal
assignments, function definitions re-evaluated from their source, module blocks re-entered) and
evaluates S in both: results and post-states must agree, and in A every variable S does not
assign must keep its value (frame condition, checked independently of B).  DESIGN.md 3/C04.
"""
from hypothesis import strategies as st
from hypothesis.stateful import RuleBasedStateMachine, rule, precondition

from . import core
from .canon import to_canon, ceq, render, renderable, show, from_json, I, R, S, L, D

LEVEL = "exploration"
RULE = ("history (<=12 statements, Hypothesis rule-based machine) over: literal assignments (rebinding a variable to "
        "another kind), expressions over existing variables, amend / amend-in-depth, take / drop / index / reverse / reshape "
        "producing a sub-list that is then amended, function definitions reading or assigning globals (incl. an arithmetic "
        "sub-expression as operand of a non-compilable verb), calls, adverb expressions, verbatim repetition of an earlier "
        "text, module blocks, dictionary updates; every statement is re-run in a fresh interpreter loaded with a copy of the "
        "pre-state; non-trivial = history contains a repeated text, or a rebind of a variable read by a previously called "
        "function, or an amend of a value derived from another variable, or a module switch; distinct by history")
ASSUMPTIONS = [
    "the fresh interpreter is loaded from the canonical values of A's variables (literal text) and from the recorded source text of its functions",
    "dictionaries are exempt from the frame condition for the documented in-place verbs applied to that dictionary",
    "a symbol bound to itself (created by merely reading an undefined name) is normalised away",
]

DATA = ['a', 'b', 'c', 't']
LITS = [I(3), I(0), R(2.5), L(I(1), I(2), I(3)), L(I(4), I(0), I(-2), I(9)), L(R(0.5), R(1.5)), L(L(I(1), I(2)), L(I(3), I(4))),
        L(I(1), L(I(2), I(3))), S('abc'), S(''), L(), L(S('ab'), S('cd')), D([(I(1), I(2))]),
        L(I(-1), I(2)), L(I(2), I(-1))]          # also usable as shapes with a free dimension


def kind(c):
    t = c[0]
    if t in 'ir':
        return 'num'
    if t == 's':
        return 'str'
    if t == 'd':
        return 'dict'
    if t == 'f':
        return 'fn'
    if t == 'l':
        if not c[1]:
            return 'empty'
        if all(x[0] in 'ir' for x in c[1]):
            return 'nlist'
        if all(x[0] == 'l' and x[1] and all(y[0] in 'ir' for y in x[1]) for x in c[1]) and len({len(x[1]) for x in c[1]}) == 1:
            return 'matrix'
        return 'nnested' if _all_numeric(c) else 'mixed'
    return 'other'


def _all_numeric(c):
    if c[0] == 'l':
        return all(_all_numeric(x) for x in c[1])
    return c[0] in 'ir'


class World:
    def __init__(self):
        from klongpy import KlongInterpreter
        self.KI = KlongInterpreter
        self.a = KlongInterpreter()
        self.recipes = {}       # function variable -> list of texts that recreate it in a fresh interpreter
        self.fn_assigns = {}    # function variable -> set of globals its body assigns
        self.fn_reads = {}      # function variable -> set of globals it reads
        self.called = set()
        self.history = []       # (text, assigned set, dict_inplace set)
        self.fails = []
        self.flags = set()
        self.derived = {}       # var -> var it was derived from
        self.cur_module = None
        self.saw_undefined = False

    def fail(self, kind_, exp, obs):
        self.fails.append((kind_, exp, obs))

    def snap(self, k):
        out = {}
        for name, v in k._context:
            s = str(name)
            if s.startswith('.'):
                continue
            if s in ('x', 'y', 'z'):
                continue            # reserved parameter names are not user variables
            out[s] = to_canon(v)
        return out

    @staticmethod
    def selfbound(name, c):
        """A name bound to its own symbol: what merely reading an undefined variable leaves behind. It
        evaluates exactly like the undefined name, so `absent` and `self-bound` count as the same value."""
        return c is None or c == ('y', name) or c == ('y', name.split('`')[0])

    def build_b(self, state):
        """Fresh interpreter loaded with a copy of A's state. Returns None if the state cannot be written as text."""
        b = self.KI()
        for name, c in state.items():
            base = name.split('`')[0]
            if self.selfbound(name, c):
                if '`' in name:
                    return None
                b(f'{name}:::{name}')
            elif c[0] == 'f':
                rec = self.recipes.get(name) or self.recipes.get(base)
                if rec is None:
                    return None
                for t in rec:
                    b(t)
            elif '`' in name:
                return None
            else:
                if not renderable(c) or _dict_nested(c):
                    return None
                b(name + '::' + render(c))
        if self.cur_module:
            b(f'.module(:{self.cur_module})')       # the active module is part of the state the text is evaluated in
        return b

    def run(self, text, assigned, inplace=(), note=None):
        """Evaluate statement `text` in A and in a fresh B loaded with A's pre-state; record failures."""
        a = self.a
        before = self.snap(a)
        self.pre_state = before
        b = self.build_b(before)
        if b is not None and self.snap(b) != before:
            # loading itself did not reproduce the state: the harness cannot express it - skip B
            b = None
        import re
        body = text.split('::', 1)[1] if '::' in text and not text.startswith('.') else text
        for n in set(re.findall(r'(?<![a-z"0c:.])[a-z](?![a-z"])', re.sub(r'"[^"]*"', '', body))):
            if n in ('x', 'y', 'z', 'q'):
                continue
            if self.selfbound(n, before.get(n)) and not any(k.split('`')[0] == n for k in before):
                self.saw_undefined = True      # the statement reads a name that was never assigned
        ra = _outcome(a, text)
        if text.startswith('.module('):
            self.cur_module = None if text == '.module(0)' else text[len('.module(:'):-1]
        after = self.snap(a)
        if any(c is not None and self.selfbound(n, c) for n, c in after.items()):
            self.saw_undefined = True       # some statement read a name that was never assigned
        self.history.append((text, set(assigned), set(inplace), dict(getattr(self, 'pending_recipe', None) or {})))
        # frame condition (independent of B)
        for name in sorted(set(before) | set(after)):
            base = name.split('`')[0]
            if base in assigned or name in assigned:
                continue
            if name in inplace or base in inplace:
                continue
            if before.get(name) != after.get(name):
                if self.selfbound(name, before.get(name)) and self.selfbound(name, after.get(name)):
                    continue
                if name not in before and name not in assigned:
                    self.fail('frame/new-variable', f'{text!r} creates no variable {name}', show(after[name])[:80])
                else:
                    self.fail('frame/changed', f'{name} keeps {show(before[name])[:80]} across {text!r}',
                              show(after[name])[:80] if name in after else '<deleted>')
                return ra
        if b is None:
            return ra
        rb = _outcome(b, text)
        if ra[0] != rb[0] or (ra[0] == 'val' and not _same(ra[1], rb[1])):
            konly = (ra[0] == 'val' and rb[0] == 'val' and ra[1][0] != 'f' and rb[1][0] != 'f'
                     and ceq(ra[1], rb[1], rtol=0, atol=0, match=True))
            self.fail('result-differs-kind-only' if konly else 'result-differs', f'fresh interpreter: {_so(rb)}',
                      f'after this history: {_so(ra)}')
            return ra
        post_b = self.snap(b)
        na = {n for n, c in after.items() if not self.selfbound(n, c)}
        nb = {n for n, c in post_b.items() if not self.selfbound(n, c)}
        if na != nb:
            self.fail('post-state/names', sorted(nb), sorted(na))
        else:
            for name in na:
                if not _same(after[name], post_b[name]):
                    konly = (after[name][0] != 'f' and post_b[name][0] != 'f'
                             and ceq(after[name], post_b[name], rtol=0, atol=0, match=True))
                    self.fail('post-state/value-kind-only' if konly else 'post-state/value', f'{name} = {show(post_b[name])[:80]} (fresh interpreter)', show(after[name])[:80])
                    break
        return ra


def _dict_nested(c):
    if c[0] == 'l':
        return any(x[0] == 'd' or _dict_nested(x) for x in c[1])
    if c[0] == 'd':
        return any(v[0] == 'd' or _dict_nested(v) for _, v in c[1])
    return False


def _outcome(k, text):
    try:
        return ('val', to_canon(k(text)))
    except RecursionError:
        return ('err', 'RecursionError')
    except Exception as e:
        return ('err', type(e).__name__)


def _same(x, y):
    if x[0] == 'f' and y[0] == 'f':
        return x == y
    return ceq(x, y, rtol=0, atol=0)


def _so(o):
    return show(o[1])[:100] if o[0] == 'val' else 'raises ' + o[1]


def make_machine(stats, report):
    class M(RuleBasedStateMachine):
        def __init__(self):
            super().__init__()
            self.w = World()
            self.reported = False
            self.ops = []

        # every rule builds (text, assigned, inplace) and calls self.do
        def do(self, text, assigned=(), inplace=(), flag=None, recipe=None):
            if self.reported:
                return
            w = self.w
            if flag:
                w.flags.add(flag)
            if recipe:
                w.recipes.update(recipe)
            w.pending_recipe = recipe
            self.ops.append([text, sorted(assigned), sorted(inplace), recipe or {}])
            try:
                w.run(text, set(assigned), set(inplace))
            except Exception as e:
                w.fail('harness-raised', 'statement evaluates (or raises) in both interpreters', f'{type(e).__name__}: {e}'[:160])
            if w.fails:
                self.reported = True
                kind_, exp, obs = w.fails[0]
                report(kind_ + '/' + self.classify(text) + self.verb_in(text) + '/' + self.kinds_in(text), {"history": [h[0] for h in w.history], "ops": self.ops},
                       expected=exp, observed=obs)

        def kinds_in(self, text):
            import re
            pre = getattr(self.w, 'pre_state', {})
            names = [n for n in re.findall(r'[a-z]+', text.split('::', 1)[-1]) if n in DATA or n in ('d', 'f', 'g', 'h', 'j')]
            return '+'.join(sorted({kind(pre[n]) if n in pre else 'undefined' for n in names})) or 'none'

        def verb_in(self, text):
            body = text.split('::', 1)[-1]
            for v in (':^', ':=', ':-', '+/', '+\\', '|/', "'", '@', '#', '_', ',', '|', '^', '%', '*', '+', '-'):
                if v in body:
                    return '[' + v + ']'
            return ''

        def classify(self, text):
            if '.module' in text:
                return 'module'
            if ':=' in text or ':-' in text:
                return 'amend'
            if text.rstrip(')').endswith('(') or '(' in text and '::' not in text:
                return 'call'
            if '::{' in text:
                return 'fn-definition'
            if '::' in text:
                return 'assignment'
            return 'expression'

        def vars_of_kind(self, *kinds):
            s = self.w.snap(self.w.a)
            return sorted(n for n, c in s.items() if n in DATA and kind(c) in kinds)

        @rule(v=st.sampled_from(DATA), c=st.sampled_from(LITS))
        def assign_literal(self, v, c):
            w = self.w
            for f in w.called:
                if v in w.fn_reads.get(f, ()):
                    w.flags.add('rebind-read-by-called-fn')
            w.derived.pop(v, None)
            self.do(f'{v}::{render(c)}', {v})

        @rule(data=st.data(), v=st.sampled_from(DATA), tpl=st.sampled_from(['{w}+1', '{w}*2', '|{w}', '2#{w}', '1_{w}', '{w}@0', '[2 2]:^{w}',
                                                                            '{w},{w}', '-{w}', '#{w}', '(-1)#{w}', ',{w}', '{w}@[1 0]', '[-1 2]:^{w}', '[2 -1]:^{w}']))
        def assign_expr(self, data, v, tpl):
            numeric = tpl in ('{w}+1', '{w}*2', '-{w}')
            cands = self.vars_of_kind('num', 'nlist', 'matrix', 'nnested') if numeric else \
                self.vars_of_kind('nlist', 'matrix', 'nnested', 'mixed', 'str')
            if not cands:
                return
            wv = data.draw(st.sampled_from(cands))
            self.w.derived[v] = wv
            self.do(f'{v}::' + tpl.format(w=wv), {v})

        @rule(data=st.data(), v=st.sampled_from(DATA))
        def reshape_by_shape_variable(self, data, v):
            # the shape is held in a variable and has a free (-1) dimension: Reshape must not write the resolved size into it
            snap = self.w.snap(self.w.a)
            shapes = sorted(n for n, c in snap.items() if n in DATA and c in (L(I(-1), I(2)), L(I(2), I(-1))))
            srcs = [n for n in self.vars_of_kind('nlist', 'matrix') if n not in shapes]
            if not shapes or not srcs:
                return
            sh = data.draw(st.sampled_from(shapes))
            wv = data.draw(st.sampled_from(srcs))
            self.w.derived[v] = wv
            self.do(f'{v}::{sh}:^{wv}', {v})

        @rule(data=st.data(), v=st.sampled_from(DATA), self_assign=st.booleans(), val=st.sampled_from(['99', '0', '2.5', '[7 8]']),
              idx=st.sampled_from(['0', '1', '[0 1]']))
        def amend(self, data, v, self_assign, val, idx):
            cands = self.vars_of_kind('nlist', 'nnested', 'mixed', 'matrix')
            if not cands:
                return
            wv = data.draw(st.sampled_from(cands))
            if wv in self.w.derived or wv == v:
                self.w.flags.add('amend-of-derived-value')
            target = wv if self_assign else v
            self.do(f'{target}::{wv}:={val},{idx}', {target})

        @rule(data=st.data(), v=st.sampled_from(DATA), val=st.sampled_from(['42', '0.5']), idx=st.sampled_from(['[0 1]', '[1 0]', '[0 0]']))
        def amend_in_depth(self, data, v, val, idx):
            cands = self.vars_of_kind('matrix', 'nnested')
            if not cands:
                return
            wv = data.draw(st.sampled_from(cands))
            # "the number of indices must match the rank of the array": the index path must end at an atom of the value
            cur = self.w.snap(self.w.a).get(wv)
            for i in [int(t) for t in idx.strip('[]').split()]:
                if cur is None or cur[0] != 'l' or i >= len(cur[1]):
                    return
                cur = cur[1][i]
            if cur is None or cur[0] not in 'ir':
                return
            if wv in self.w.derived:
                self.w.flags.add('amend-of-derived-value')
            self.do(f'{v}::{wv}:-{val},{idx}', {v})

        @rule(data=st.data(), f=st.sampled_from(['f', 'g']),
              tpl=st.sampled_from(['{{{w}+x}}', '{{x;(,1),{w}*2}}', '{{x;{w}}}', '{{[q];q::x;{w}::q+1;q}}', '{{x;#{w}}}', '{{x*{w}}}', '{{x;+/{w}}}',
                                   '{{[q];q::x;{w}::"ab";q}}', '{{[q];q::x;{w}::,x;q}}', '{{[q];q::x;{w}::x;q}}']))
        def define_fn(self, data, f, tpl):
            defined = self.vars_of_kind('num', 'nlist', 'matrix', 'nnested')
            if not defined:
                return
            wv = data.draw(st.sampled_from(defined))
            text = f'{f}::' + tpl.format(w=wv)
            self.w.fn_assigns[f] = {wv} if ';{w}::' in tpl else set()
            self.w.fn_reads[f] = {wv}
            self.w.called.discard(f)
            self.do(text, {f}, recipe={f: [text]})

        @rule(f=st.sampled_from(['f', 'g']), arg=st.sampled_from(['2', '[1 2]', '0.5']), bind=st.sampled_from([None, 'c', 't']))
        def call_fn(self, f, arg, bind):
            w = self.w
            if f not in w.recipes:
                return
            import re
            assigned = set(re.findall(r';([a-z])::', w.recipes[f][0])) - {'q'}
            text = f'{f}({arg})'
            if bind:
                text = f'{bind}::{text}'
                assigned.add(bind)
            w.called.add(f)
            self.do(text, assigned)

        @rule(data=st.data(), tpl=st.sampled_from(['+/{w}', "{{x*2}}'{w}", '+\\{w}', '|/{w}', '{w}+{w}', '{w}', '#{w}', '{w}*2', '(,1),{w}*2',
                                                   '{w}%2', '{w}^2']))
        def expression(self, data, tpl):
            structural = tpl in ('{w}', '#{w}')
            cands = self.vars_of_kind('num', 'nlist', 'matrix', 'nnested', 'mixed', 'str', 'empty') if structural else \
                self.vars_of_kind('num', 'nlist', 'matrix', 'nnested')
            if not cands:
                return
            self.do(tpl.format(w=data.draw(st.sampled_from(cands))), set())

        @rule(data=st.data(), tpl=st.sampled_from(['{w}*2', '{w}+{w}', '(,1),{w}*2', '+/{w}', '{w}%2']), arg=st.sampled_from(['2', '[1 2]', '0.5']))
        def text_call_same_text(self, data, tpl, arg):
            """evaluate a text, call a function that assigns one of its variables, evaluate the same text again
            (no top-level assignment in between)"""
            import re
            w = self.w
            cands = []
            for f in ('f', 'g'):
                if f in w.recipes:
                    for v in set(re.findall(r';([a-z])::', w.recipes[f][0])) - {'q'}:
                        if v in self.vars_of_kind('num', 'nlist', 'matrix', 'nnested'):
                            cands.append((f, v))
            if not cands:
                return
            f, v = data.draw(st.sampled_from(sorted(cands)))
            text = tpl.format(w=v)
            self.do(text, set())
            w.called.add(f)
            self.do(f'{f}({arg})', {v})
            self.do(text, set(), flag='repeated-text')

        @precondition(lambda self: len(self.w.history) > 0)
        @rule(data=st.data())
        def repeat(self, data):
            text, assigned, inplace, recipe = data.draw(st.sampled_from(self.w.history))
            if '.module(' in text:
                return      # module blocks are repeated as blocks (module_block rule), not statement by statement
            self.do(text, assigned, inplace, flag='repeated-text', recipe=recipe or None)

        @rule(m=st.sampled_from(['m', 'n']), body=st.sampled_from(['{x+1}', '{x*2}', '{x;7}']), name=st.sampled_from(['h', 'j']))
        def module_block(self, m, body, name):
            w = self.w
            recipe = [f'.module(:{m})', f'{name}::{body}', '.module(0)']
            self.do(f'.module(:{m})', set(), flag='module-switch')
            if self.reported:
                return
            self.do(f'{name}::{body}', {name, f'{name}`{m}'}, recipe={f'{name}`{m}': recipe})
            if self.reported:
                return
            self.do('.module(0)', set())

        @rule(v=st.sampled_from(['d']), k=st.integers(1, 3), val=st.integers(10, 12), how=st.sampled_from(['create', 'update', 'remove', 'read']))
        def dictionary(self, v, k, val, how):
            s = self.w.snap(self.w.a)
            if how == 'create' or v not in s or s[v][0] != 'd':
                self.do(f'{v}:::{{[{k} {val}]}}', {v})
            elif how == 'update':
                self.do(f'{v},[{k} {val}]', set(), {v})
            elif how == 'remove':
                self.do(f'{k}_{v}', set(), {v})
            else:
                self.do(f't::{v}?{k}', {'t'})

        def teardown(self):
            w = self.w
            stats.extra['steps'] = stats.extra.get('steps', 0) + len(w.history)
            stats.case(tuple(h[0] for h in w.history), nontrivial=bool(w.flags), classes=['flag:' + f for f in sorted(w.flags)],
                       sample={"history": [h[0] for h in w.history][:20]} if len(w.history) >= 5 else None)
    return M


def run_ops(ops):
    w = World()
    for op in ops:
        text, assigned, inplace = op[0], op[1], op[2]
        if len(op) > 3 and op[3]:
            w.recipes.update({k: list(v) for k, v in op[3].items()})
        w.pending_recipe = op[3] if len(op) > 3 else None
        # a call assigns what the function's *current* definition assigns (a minimised history may have lost the
        # redefinition the recorded set was computed for)
        import re
        m = re.match(r'^(?:([a-z])::)?([fg])\(', text)
        if m and m.group(2) in w.recipes:
            assigned = set(re.findall(r';([a-z])::', w.recipes[m.group(2)][-1])) - {'q'}
            if m.group(1):
                assigned.add(m.group(1))
        try:
            w.run(text, set(assigned), set(inplace))
        except Exception as e:
            w.fail('harness-raised', 'statement evaluates', f'{type(e).__name__}: {e}'[:160])
        if w.fails:
            break
    return w


def minimise(fkey, case):
    def still(ops):
        w = run_ops(ops)
        return bool(w.fails) and not w.saw_undefined and fkey.startswith(w.fails[0][0] + '/')
    ops = core.ddmin_list(case["ops"], still, max_tests=120)
    w = run_ops(ops)
    new = {"history": [o[0] for o in ops], "ops": ops}
    if w.fails:
        return new, w.fails[0][1], w.fails[0][2]
    return new


def shard(seed_value, n, steps):
    stats = core.Stats()
    f = core.Findings("C04")
    core.run_machine_collect(stats, lambda report: make_machine(stats, report), seed_value, n, steps, rounds=8,
                             is_known=lambda k: f.match(k) is not None, minimise=minimise)
    return stats


def check(run):
    quick = run.tier == 'quick'
    run.absorb(core.pool_map('vk.c04_state', 'shard', [(run.seed * 1000 + i, 700 if quick else 6000, 12) for i in range(16)]))
    run.min_class_fraction = {'flag:repeated-text': 0.1, 'flag:module-switch': 0.1, 'flag:amend-of-derived-value': 0.008}


def replay(case):
    w = run_ops(case["ops"])
    return [(f[0], f[1], f[2]) for f in w.fails[:3]]
