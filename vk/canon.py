"""Canonical value domain (DESIGN.md 2.4).

Canonical values are hashable tagged tuples:
  ('i', n) ('r', f) ('c', ch) ('s', str) ('y', sym) ('l', (items...)) ('d', ((k, v)...))
  ('u',) undefined   ('f', arity) function   ('x', text) anything else
"""
import math

import numpy as np

I = lambda n: ('i', int(n))
R = lambda f: ('r', float(f))
C = lambda c: ('c', c)
S = lambda s: ('s', s)
Y = lambda s: ('y', s)
L = lambda *xs: ('l', tuple(xs))
LL = lambda xs: ('l', tuple(xs))
D = lambda pairs: ('d', tuple(sorted(pairs, key=repr)))
U = ('u',)


def to_canon(v):
    from klongpy.core import KGSym, KGChar, KGFn, KGLambda, KGFnWrapper, KGChannel, KGUndefined
    if v is None or isinstance(v, KGUndefined):
        return U
    if isinstance(v, (bool, np.bool_)):
        return ('i', int(v))
    if isinstance(v, (int, np.integer)):
        return ('i', int(v))
    if isinstance(v, (float, np.floating)):
        return ('r', float(v))
    if isinstance(v, KGChar) or (type(v).__name__ == 'KGChar' and isinstance(v, str)):
        return ('c', str(v))
    if isinstance(v, KGSym):
        return ('y', str(v))
    if isinstance(v, str):
        return ('s', str(v))
    if isinstance(v, np.ndarray):
        if v.ndim == 0:
            return to_canon(v.item())
        k = v.dtype.kind
        if k in 'iub':
            return _canon_num_list(v, 'i')
        if k == 'f':
            return _canon_num_list(v, 'r')
        return ('l', tuple(to_canon(x) for x in v))
    if isinstance(v, (list, tuple)):
        return ('l', tuple(to_canon(x) for x in v))
    if isinstance(v, dict):
        return ('d', tuple(sorted(((to_canon(k), to_canon(x)) for k, x in v.items()), key=repr)))
    if isinstance(v, KGFnWrapper):
        return to_canon(v.fn)
    if isinstance(v, KGFn):
        return ('f', v.arity)
    if isinstance(v, KGLambda):
        return ('f', v.get_arity())
    if isinstance(v, KGChannel):
        return ('x', 'channel')
    if type(v).__module__.startswith('pandas') and hasattr(v, 'to_numpy'):
        # pandas extension arrays (e.g. the string dtype) are list-like column values
        return to_canon(np.asarray(v, dtype=object))
    if type(v).__module__.startswith('torch'):
        try:
            return to_canon(v.detach().cpu().numpy())
        except Exception:
            return ('x', 'tensor?')
    return ('x', type(v).__name__)


def _canon_num_list(a, kind):
    if a.ndim == 1:
        if kind == 'i':
            return ('l', tuple(('i', int(x)) for x in a.tolist()))
        return ('l', tuple(('r', float(x)) for x in a.tolist()))
    return ('l', tuple(_canon_num_list(x, kind) for x in a))


# ------------------------------------------------------------------ rendering to Klong source

def _num_text(c):
    if c[0] == 'i':
        return str(c[1])
    f = c[1]
    s = repr(float(f))
    if 'e' in s or 'E' in s:
        # klong reads 1e-05 / 1e+16 / 1e16 via float(); keep repr but ensure mantissa form
        return s
    return s


def render(c, in_list=False):
    """Klong source text for a canonical value (usable as an operand)."""
    t = c[0]
    if t in 'ir':
        s = _num_text(c)
        if s.startswith('-') and not in_list:
            return '(' + s + ')'
        return s
    if t == 'c':
        return '0c' + c[1]
    if t == 's':
        return '"' + c[1].replace('"', '""') + '"'
    if t == 'y':
        return ':' + c[1]
    if t == 'l':
        return '[' + ' '.join(render(x, True) for x in c[1]) + ']'
    if t == 'd':
        return ':{' + ' '.join('[' + render(k, True) + ' ' + render(v, True) + ']' for k, v in c[1]) + '}'
    if t == 'u':
        raise ValueError("undefined is not renderable as a literal")
    raise ValueError(f"not renderable: {c!r}")


def renderable(c):
    t = c[0]
    if t in 'icsy':
        return True
    if t == 'r':
        return math.isfinite(c[1])
    if t == 'l':
        return all(renderable(x) for x in c[1])
    if t == 'd':
        return all(renderable(k) and renderable(v) for k, v in c[1])
    return False


# ------------------------------------------------------------------ comparison

def close(a, b, rtol=1e-9, atol=1e-12):
    if a == b:
        return True
    if math.isnan(a) or math.isnan(b):
        return math.isnan(a) and math.isnan(b)
    if math.isinf(a) or math.isinf(b):
        return a == b
    return abs(a - b) <= atol + rtol * max(abs(a), abs(b))


def ceq(a, b, rtol=1e-9, atol=1e-12, match=False):
    """Canonical equality. match=True ignores integer-vs-real kind (Klong Match)."""
    ta, tb = a[0], b[0]
    if ta in 'ir' and tb in 'ir':
        if ta != tb and not match:
            return False
        if ta == 'i' and tb == 'i':
            return a[1] == b[1]
        return close(float(a[1]), float(b[1]), rtol, atol)
    if ta != tb:
        return False
    if ta == 'l':
        return len(a[1]) == len(b[1]) and all(ceq(x, y, rtol, atol, match) for x, y in zip(a[1], b[1]))
    if ta == 'd':
        if len(a[1]) != len(b[1]):
            return False
        return all(ceq(ka, kb, rtol, atol, match) and ceq(va, vb, rtol, atol, match)
                   for (ka, va), (kb, vb) in zip(a[1], b[1]))
    return a == b


def same_shape(a, b):
    """Same nesting structure and lengths, ignoring leaf kinds/values."""
    if a[0] == 'l' or b[0] == 'l':
        return a[0] == b[0] and len(a[1]) == len(b[1]) and all(same_shape(x, y) for x, y in zip(a[1], b[1]))
    return True


def category(exp, obs):
    """structure / value / kind-only classification of a mismatch (C01 / C05 / C08)."""
    if not same_shape(exp, obs):
        return 'structure'
    if ceq(exp, obs, match=True):
        return 'kind-only'
    return 'value'


def show(c):
    """Readable text for canonical value (for evidence / messages)."""
    t = c[0]
    if t == 'u':
        return ':undefined'
    if t == 'f':
        return f'<fn/{c[1]}>'
    if t == 'x':
        return f'<{c[1]}>'
    if t == 'l':
        return '[' + ' '.join(show(x) for x in c[1]) + ']'
    if t == 'd':
        return ':{' + ' '.join('[' + show(k) + ' ' + show(v) + ']' for k, v in c[1]) + '}'
    if t == 'r' and not math.isfinite(c[1]):
        return repr(c[1])
    return render(c, True)


def shape_class(c):
    """Fixed operand shape classifier used in finding keys."""
    t = c[0]
    if t == 'i':
        return 'int'
    if t == 'r':
        return 'real'
    if t == 'c':
        return 'char'
    if t == 'y':
        return 'sym'
    if t == 's':
        return 'str0' if c[1] == '' else 'str'
    if t == 'd':
        return 'dict'
    if t == 'u':
        return 'undef'
    if t == 'f':
        return 'fn'
    if t == 'l':
        xs = c[1]
        if not xs:
            return 'empty'
        if all(x[0] != 'l' for x in xs):
            kinds = {x[0] for x in xs}
            if kinds <= {'i'}:
                return 'ivec'
            if kinds <= {'r'}:
                return 'rvec'
            if kinds <= {'i', 'r'}:
                return 'nvec'
            if kinds <= {'s'}:
                return 'svec'
            if kinds <= {'c'}:
                return 'cvec'
            return 'mixvec'
        if all(x[0] == 'l' for x in xs):
            lens = {len(x[1]) for x in xs}
            flat = all(all(y[0] != 'l' for y in x[1]) for x in xs)
            if len(lens) == 1 and flat and 0 not in lens:
                return 'matrix'
            if len(lens) == 1 and 0 not in lens and all(shape_class(x) == 'matrix' for x in xs):
                return 'rank3'
            if len(lens) > 1 and flat:
                return 'ragged'
            return 'nested'
        return 'nested'
    return 'other'


def depth(c):
    if c[0] != 'l':
        return 0
    return 1 + max((depth(x) for x in c[1]), default=0)


def from_json(j):
    """Inverse of core.jsonable for canonical values (lists -> tuples)."""
    if isinstance(j, list):
        return tuple(from_json(x) for x in j)
    return j


def snapshot(klong, skip_prefix=('.',)):
    """Canonical values of all user variables of an interpreter (outermost user scope)."""
    out = {}
    for k, v in klong._context:
        ks = str(k)
        if ks.startswith('.'):
            continue
        out[ks] = to_canon(v)
    return out
