"""vk - property-based / fuzzing checks for briangu/klongpy (see /verif/DESIGN.md)."""
