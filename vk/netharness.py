"""Loopback pairs of real klongpy repls and in-memory asyncio streams (C13, C14, C20)."""
import asyncio
import logging
import socket
import threading
import time

from . import core


_PORT = {"next": 0}


def free_port():
    """a free loopback port from a range owned by this process (pid-derived), so that two worker processes of one check can
    never be handed the same port in the window between probing it and the server under test binding it"""
    import os
    base = 20000 + (os.getpid() % 300) * 40         # below the ephemeral range (32768+): a connect to a closed port there can self-connect
    for _ in range(40):
        p = base + _PORT["next"] % 40
        _PORT["next"] += 1
        s = socket.socket()
        s.setsockopt(socket.SOL_SOCKET, socket.SO_REUSEADDR, 1)
        try:
            s.bind(('127.0.0.1', p))
            return p
        except OSError:
            continue
        finally:
            s.close()
    raise core.HarnessError("no free port in this process's range")


def wait_listening(port, timeout=10.0):
    t0 = time.time()
    while time.time() - t0 < timeout:
        try:
            s = socket.create_connection(('127.0.0.1', port), timeout=1)
            s.close()
            return
        except OSError:
            time.sleep(0.02)
    raise core.HarnessError(f"server on port {port} did not start listening")


class Pair:
    """A server interpreter (.srv on a loopback port) and a client interpreter, each with its own io and klong loops,
    built with the repository's own create_repl()."""

    def __init__(self):
        core.setup_repo_path()
        logging.disable(logging.CRITICAL)
        from klongpy.repl import create_repl
        import klongpy.sys_fn_ipc as ipc
        # klongpy keeps one process-wide server handler; a pair created later in the same process starts from a fresh one
        # (whatever state an earlier pair left it in)
        ipc._ipc_tcp_server = ipc.TcpServerHandler()
        self.ks, self.ls = create_repl()
        for attempt in range(5):
            self.port = free_port()
            if self.ks(f'.srv({self.port})') == 1:
                try:
                    wait_listening(self.port)
                    break
                except core.HarnessError:
                    self.ks('.srv(0)')
        else:
            raise core.HarnessError("could not start the IPC server")
        self.kc, self.lc = create_repl()
        self.connect()

    def connect(self):
        """(re)open the client's remote function f and remote dictionary d (shared connection)"""
        self.kc(f'f::.cli({self.port})')
        self.kc('d::.clid(f)')

    def close(self):
        try:
            self.kc('.clic(f)')
        except Exception:
            pass
        try:
            self.ks('.srv(0)')
        except Exception:
            pass
        # stop the loop threads without klongpy's cleanup_repl: its wait for pending tasks spins forever once the
        # loop thread has ended (the threads are daemons and the loops die with the worker process)
        for loops in (self.lc, self.ls):
            io_loop, io_thread, io_stop, klong_loop, klong_thread, klong_stop = loops
            for loop, thread, stop in ((io_loop, io_thread, io_stop), (klong_loop, klong_thread, klong_stop)):
                try:
                    loop.call_soon_threadsafe(stop.set)
                    thread.join(2)
                except Exception:
                    pass


class LoopThread:
    """An asyncio loop on its own thread (for in-memory stream work)."""

    def __init__(self):
        self.loop = asyncio.new_event_loop()
        self.thread = threading.Thread(target=self._run, daemon=True)
        self.thread.start()

    def _run(self):
        asyncio.set_event_loop(self.loop)
        self.loop.run_forever()

    def run(self, coro, timeout=30):
        return asyncio.run_coroutine_threadsafe(coro, self.loop).result(timeout)

    def stop(self):
        self.loop.call_soon_threadsafe(self.loop.stop)
        self.thread.join(5)
