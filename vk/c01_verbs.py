"""C01 - primitive verbs return what the Klong reference prescribes, for all operands.

Exhaustive product of verbs x a closed operand universe plus recursive Hypothesis operands;
oracle: the independent pure-Python reference model (vk/refmodel.py), self-validated before every
run against the single-verb cases of the official suite shipped in the repository.
DESIGN.md 3/C01.
"""
import itertools
import os
import re

from hypothesis import given, strategies as st

from . import core
from . import refmodel as rm
from .canon import to_canon, ceq, category, render, renderable, show, shape_class, from_json, I, R, C, S, Y, L, LL

LEVEL = "exploration"
RULE = ("case = (verb, operand) for 19 monads / (verb, a, b) for 27 dyads; operands from a closed universe (~70 values: "
        "integers, reals, characters, strings, symbols, vectors of every kind, matrices, a rank-3 array, nested and ragged "
        "lists, counts that are negative / zero / exact / overshooting), enumerated exhaustively, plus recursive Hypothesis "
        "operands; a case is judged only if the reference model defines a value (otherwise rejected); non-trivial = some "
        "operand is not an integer atom or the verb is not one of + - *; distinct by (verb, operands)")
ASSUMPTIONS = [
    "oracle: vk/refmodel.py, written from the verb docstrings (the Klong reference), self-validated against tests/kgtests/language/test_suite.kg under Match",
    "comparison: canonical equality incl. integer/real/character/string kind, reals rel 1e-9; a raise on an in-domain operand is a violation",
    "where reference text and suite are both silent the model declines (case rejected)",
]

# ----------------------------------------------------------------------------- universe

ATOMS = [I(-7), I(-3), I(-2), I(-1), I(0), I(1), I(2), I(3), I(4), I(5), I(10), I(17), I(65), I(97),
         R(-2.5), R(-0.5), R(0.5), R(1.5), R(2.0), R(123.75),
         C('a'), C('z'), C('0'), S(''), S('a'), S('ab'), S('abc'), S('hello foo'), S('abcdefg'), S('aab'), Y('foo'), Y('x')]
LISTS = [L(), L(I(4)), L(I(1), I(2), I(3)), L(I(3), I(1), I(2), I(2)), L(I(0), I(1), I(0), I(1), I(0)), L(I(1), I(2), I(3), I(4)),
         L(I(1), I(2), I(3), I(4), I(5), I(6), I(7)), L(I(2), I(3), I(5)), L(I(1), I(1)), L(I(0), I(1)), L(I(1), I(0)),
         L(R(0.5), R(1.5), R(2.0)), L(R(2.0)), L(I(1), R(2.5), I(3)),
         L(S('ab'), S('cd')), L(S('abc'), S('def'), S('g')), L(C('a'), C('b')), L(Y('a'), Y('b')), L(S('a'), I(1)),
         L(L(I(1), I(2), I(3))), L(L(I(1)), L(I(2)), L(I(3))), L(L(I(1), I(2)), L(I(3), I(4))), L(L(I(1), I(2), I(3)), L(I(4), I(5), I(6))),
         L(L(I(1), I(2)), L(I(3), I(4)), L(I(5), I(6))), L(L(I(1), I(2)), L(I(4), I(5)), L(I(5), I(6))),
         L(L(L(I(1), I(2)), L(I(3), I(4))), L(L(I(5), I(6)), L(I(7), I(8)))),
         L(I(1), L(I(2), I(3))), L(L(I(1)), L(I(2), I(3))), L(I(1), L(I(2), L(I(3), L(I(4))))), L(L(), L(I(1))),
         L(L(I(1), L(I(2))), L(I(3), L(I(4)))), L(L(I(0), I(1))), L(L(R(0.5), R(1.5)), L(R(2.5), R(3.5)))]
U_ALL = ATOMS + LISTS
MON = list(rm.MONADS) + list(rm.GRADES)
DYA = list(rm.DYADS)

_K = {}


def interp():
    from klongpy import KlongInterpreter
    ent = _K.get('k')
    if ent is None or ent[1] > 2000:
        ent = [KlongInterpreter(), 0]
        _K['k'] = ent
    ent[1] += 1
    return ent[0]


def evaluate(text):
    k = interp()
    try:
        with core.case_timeout(10):
            return ('val', to_canon(k(text)))
    except core.CaseTimeout:
        return ('err', 'Timeout')
    except RecursionError:
        return ('err', 'RecursionError')
    except Exception as e:
        return ('err', type(e).__name__)


def source(op, a, b=None):
    if b is None:
        return op + render(a)
    return render(a) + op + render(b)


def sclass(c):
    s = shape_class(c)
    return s


def judge(stats, report, op, a, b=None):
    arity = 1 if b is None else 2
    try:
        want, tag = rm.monad(op, a) if arity == 1 else rm.dyad(op, a, b)
    except rm.Outside as e:
        stats.reject('outside the reference domain')
        return
    except RecursionError:
        stats.reject('model recursion')
        return
    if want[0] == 'grade':
        try:
            rm.grade_valid(a, LL([I(i) for i in range(len(rm.items(a)))]), want[1])
        except rm.Outside:
            stats.reject('outside the reference domain')
            return
    text = source(op, a, b)
    got = evaluate(text)
    operands = (a,) if arity == 1 else (a, b)
    nontriv = not (all(o[0] == 'i' for o in operands) and op in ('+', '-', '*'))
    stats.case((op, operands), nontrivial=nontriv, classes=['arity:%d' % arity, 'verb:%s%s' % (op, '' if arity == 2 else ' (monad)')],
               sample={"text": text, "expected": ('grade' if want[0] == 'grade' else show(want)[:80]), "clause": tag})
    case = {"op": op, "arity": arity, "a": a, "b": b, "text": text}
    shapes = trait(op, operands) + '/' + ','.join(sclass(o) for o in operands)
    verb = f"{'monad' if arity == 1 else 'dyad'} {op}"
    if got[0] == 'err':
        report(f"{verb}/{tag}/{shapes}/raised", case, expected=('a sorting permutation' if want[0] == 'grade' else show(want)[:120]),
               observed='raises ' + got[1])
        return
    if want[0] == 'grade':
        try:
            ok = rm.grade_valid(a, got[1], want[1])
        except rm.Outside:
            stats.reject('outside the reference domain')
            return
        if not ok:
            report(f"{verb}/{tag}/{shapes}/value", case, expected='a permutation of the indices that sorts the operand', observed=show(got[1])[:120])
        return
    if not ceq(got[1], want, rtol=1e-9, atol=1e-12):
        cat = category(want, got[1])
        if cat == 'kind-only':
            # integers and reals side by side (in an operand, between the operands, or in the expected result) is the
            # situation the homogeneous-array representation cannot express; a kind change without it is something else
            kinds = set()
            for o in operands + (want,):
                _leaf_kinds(o, kinds)
            cat = 'kind-num-mixed' if {'i', 'r'} <= kinds else 'kind-num'
        elif cat in ('value', 'structure') and _kinds_only_strchar(want, got[1]):
            cat = 'kind-text'
        report(f"{verb}/{tag}/{shapes}/{cat}", case, expected=show(want)[:120], observed=show(got[1])[:120])


def _leaf_kinds(c, acc):
    if c[0] == 'l':
        for x in c[1]:
            _leaf_kinds(x, acc)
    elif c[0] == 'd':
        for k_, v_ in c[1]:
            _leaf_kinds(k_, acc)
            _leaf_kinds(v_, acc)
    else:
        acc.add(c[0])


def _depth(c):
    return 0 if c[0] != 'l' else 1 + max((_depth(x) for x in c[1]), default=0)


def trait(op, operands):
    """Operand-relationship trait that names systemic root causes in finding keys."""
    if len(operands) == 2:
        a, b = operands
        if a[0] == 'l' and b[0] == 'l' and a[1] and b[1] and _depth(a) != _depth(b):
            return 'lists-of-different-depth'
        if any(o[0] == 'l' and shape_class(o) in ('nested', 'ragged') for o in operands):
            return 'nested-operand'
        if any(shape_class(o) in ('matrix', 'rank3') for o in operands):
            return 'matrix-operand'
        return 'plain'
    a = operands[0]
    if a[0] == 'l' and shape_class(a) in ('nested', 'ragged'):
        return 'nested-operand'
    if shape_class(a) in ('matrix', 'rank3'):
        return 'matrix-operand'
    return 'plain'


def _kinds_only_strchar(w, g):
    """same structure, and leaves differ only by character vs one-character string / symbol vs string"""
    if w[0] == 'l' and g[0] == 'l':
        return len(w[1]) == len(g[1]) and all(_kinds_only_strchar(x, y) for x, y in zip(w[1], g[1]))
    if w[0] in 'csy' and g[0] in 'csy':
        return w[1] == g[1]
    if w[0] == 's' and g[0] == 'l' or w[0] == 'l' and g[0] == 's':
        ws = w[1] if w[0] == 's' else ''.join(x[1] for x in w[1] if x[0] in 'cs')
        gs = g[1] if g[0] == 's' else ''.join(x[1] for x in g[1] if x[0] in 'cs')
        return ws == gs
    return ceq(w, g, match=True)


# ----------------------------------------------------------------------------- self validation

def parse_suite():
    """(source line, expression node, expected node) of every t("..."; expr; expected) line of the official
    suite, taken from klongpy's own parse of the line (used only to validate the oracle, never to judge)."""
    from klongpy import KlongInterpreter
    from klongpy.core import KGCall, KGSym
    path = os.path.join(core.REPO_DIR, 'tests', 'kgtests', 'language', 'test_suite.kg')
    k = KlongInterpreter()
    out = []
    for line in open(path, encoding='utf-8'):
        line = line.rstrip('\n')
        if not line.startswith('t("'):
            continue
        try:
            prog = k.prog(line)[1]
        except Exception:
            continue
        if len(prog) != 1 or not isinstance(prog[0], KGCall) or not isinstance(prog[0].args, list) or len(prog[0].args) != 3:
            continue
        out.append((line, prog[0].args[1], prog[0].args[2]))
    return out


def literal(node):
    """canonical value of a parsed literal node, or None"""
    from klongpy.core import KGFn, KGSym, KGCond
    import numpy as np
    if isinstance(node, (KGFn, KGCond)):
        return None
    if isinstance(node, KGSym):
        return None
    if isinstance(node, list):
        return None
    c = to_canon(node)
    return c if renderable(c) else None


def _lit_or_neg(x):
    from klongpy.core import KGFn
    if isinstance(x, KGFn) and x.is_op() and x.a.a == '-' and x.a.arity == 1:
        inner = x.args[0] if isinstance(x.args, list) else x.args
        v = literal(inner)
        return (v[0], -v[1]) if v is not None and v[0] in 'ir' else None
    return literal(x)


def single_verb_case(n):
    """If node n is one primitive verb applied to literal operand(s): (op, a, b|None)."""
    from klongpy.core import KGFn
    if not (isinstance(n, KGFn) and n.is_op()):
        return None
    op, ar = n.a.a, n.a.arity
    if ar == 1 and (op in rm.MONADS or op in rm.GRADES):
        arg = n.args[0] if isinstance(n.args, list) else n.args
        a = _lit_or_neg(arg)
        return None if a is None else (op, a, None)
    if ar == 2 and op in rm.DYADS and isinstance(n.args, list) and len(n.args) == 2:
        a, b = _lit_or_neg(n.args[0]), _lit_or_neg(n.args[1])
        return None if a is None or b is None else (op, a, b)
    return None


def self_validate():
    """The model must reproduce every single-verb case of the official suite under Match."""
    from klongpy import KlongInterpreter
    k = KlongInterpreter()
    checked = declined = 0
    bad = []
    for line, expr, expected in parse_suite():
        sv = single_verb_case(expr)
        if sv is None:
            continue
        want = _lit_or_neg(expected)
        if want is None:
            continue
        op, a, b = sv
        try:
            got, tag = rm.monad(op, a) if b is None else rm.dyad(op, a, b)
        except rm.Outside:
            declined += 1
            continue
        checked += 1
        if got[0] == 'grade':
            if not rm.grade_valid(a, want, got[1]):
                bad.append((line, show(want), 'grade predicate rejects the suite answer'))
            continue
        if not ceq(got, want, match=True, rtol=1e-9) and not _kinds_only_strchar(want, got):
            bad.append((line, show(want), show(got)))
    return checked, declined, bad


# ----------------------------------------------------------------------------- enumeration / generation

def enum_shard(idx, nshards):
    stats = core.Stats()

    def report(fkey, case, expected=None, observed=None, note=None):
        stats.fail(fkey, case, expected, observed, note)
    n = 0
    for op in MON:
        for a in U_ALL:
            n += 1
            if n % nshards == idx:
                judge(stats, report, op, a)
    for op in DYA:
        for a in U_ALL:
            for b in U_ALL:
                n += 1
                if n % nshards == idx:
                    judge(stats, report, op, a, b)
    return stats


def operand_strategy():
    ints = st.one_of(st.integers(-9, 20), st.sampled_from([0, 1, 2, 3, 64, 100]))
    reals = st.sampled_from([-2.5, -0.5, 0.5, 1.5, 2.0, 3.25, 10.5])
    atoms = st.one_of(ints.map(I), ints.map(I), reals.map(R), st.sampled_from(list('abcxyz09 ')).map(C),
                      st.text(alphabet='abc xy', max_size=6).map(S), st.sampled_from(['foo', 'x', 'bar']).map(Y))
    vec = st.one_of(st.lists(ints.map(I), max_size=7).map(LL), st.lists(reals.map(R), max_size=5).map(LL),
                    st.lists(st.text(alphabet='abc', max_size=3).map(S), max_size=4).map(LL))
    mat = st.integers(1, 3).flatmap(lambda r: st.integers(1, 4).flatmap(
        lambda c: st.lists(st.lists(ints.map(I), min_size=c, max_size=c).map(LL), min_size=r, max_size=r).map(LL)))
    nested = st.recursive(st.one_of(atoms, vec), lambda ch: st.lists(ch, max_size=4).map(LL), max_leaves=8)
    return st.one_of(atoms, vec, vec, mat, nested)


def hyp_shard(seed_value, n):
    stats = core.Stats()
    f = core.Findings("C01")

    def make_test(report):
        @given(st.sampled_from(MON + DYA + DYA), operand_strategy(), operand_strategy(), st.booleans())
        def t(op, a, b, as_monad):
            if op in rm.GRADES or (op in rm.MONADS and (op not in rm.DYADS or as_monad)):
                judge(stats, report, op, a)
            else:
                judge(stats, report, op, a, b)
        return t
    core.hyp_collect(stats, make_test, seed_value, n, rounds=25, shrink=True, is_known=lambda k: f.match(k) is not None)
    return stats


def check(run):
    quick = run.tier == 'quick'
    checked, declined, bad = self_validate()
    if bad:
        raise core.HarnessError(f"reference model disagrees with the official suite on {len(bad)} single-verb cases, e.g. {bad[:3]}")
    run.coverage_extra['model_self_validation'] = {"suite_single_verb_cases_reproduced": checked, "declined": declined}
    run.absorb(core.pool_map('vk.c01_verbs', 'enum_shard', [(i, 16) for i in range(16)]))
    run.absorb(core.pool_map('vk.c01_verbs', 'hyp_shard', [(run.seed * 1000 + i, 1500 if quick else 40000) for i in range(16)]))
    run.exhaustive = True
    run.coverage_extra['exhaustive_parts'] = [f'{len(MON)} monads x {len(U_ALL)} operands', f'{len(DYA)} dyads x {len(U_ALL)}^2 operand pairs']


def replay(case):
    out = []
    st_ = core.Stats()

    def report(fkey, case_, expected=None, observed=None, note=None):
        out.append((fkey, expected, observed))
    a = from_json(case["a"])
    b = from_json(case["b"]) if case.get("b") is not None else None
    judge(st_, report, case["op"], a, b)
    return out
