"""C16 - the file-backed key-value and table stores are persistent dictionaries.

Rule-based machines generate operation tuples (set / get / get-missing / reopen / unload /
oversize set) that a plain World executes against the real stores on a temp directory and
against a dict model; after every step the FileCache accounting invariant is checked, at the
end a freshly opened store is scanned.  DESIGN.md 3/C16.
"""
import math
import os
import pickle
import shutil
import tempfile

from hypothesis import strategies as st
from hypothesis.stateful import RuleBasedStateMachine, rule, invariant, precondition

from . import core
from .canon import to_canon, ceq, render, show, from_json, I, R, C, S, Y, L, D, U

LEVEL = "exploration"
RULE = ("history (<=40 steps, Hypothesis rule-based machine) of set / get / get of a never-set key (absent, below a plain file, or a directory of stored keys) / reopen (new store "
        "object on the same directory) / unload / set of a value larger than the limit, through the Python store objects "
        "and through Klong source (kv,[k v], kv?k, :_kv?k), over flat and nested prefix-free key paths and values of every "
        "picklable kind, under a cache limit drawn from {largest single entry, 1.7x, everything}; a second machine does the "
        "same for the table store with index-overlapping tables; non-trivial = history has an eviction followed by a "
        "re-read, or a reopen after a set, or an overwrite of an evicted key; distinct by history")
ASSUMPTIONS = [
    "time.time_ns inside klongpy.db.file_cache is replaced by a logical counter (LRU order otherwise depends on the wall clock)",
    "keys form a prefix-free set of relative paths (a key cannot be both a file and a directory)",
    "sequential use only (concurrency is C18); invariants are checked when every submitted task has completed",
    "table-store limit is at least the in-memory size of the largest single table (smaller limits hit an assert, reported only informationally)",
]

KEYS = ['a', 'b', 'dir/x', 'dir/y', 'deep/er/z', 'k with space', 'user:1', 'user_1', 'q?', 'q_']     # distinct keys stay distinct files
MISSING = ['never', 'dir/never', 'other/missing', 'a/b', 'a/b/c', 'b/x',     # also below a key that is a plain file
           'dir', 'deep', 'deep/er']      # and never-set keys that are a directory once a key below them is stored
VALS = [I(0), I(7), R(2.5), S(''), S('v'), S('hello "q"'), C('z'), Y('sym'), L(), L(I(1), I(2), I(3)), L(I(1), L(I(2), S('x'))),
        D([(I(1), I(2)), (S('k'), L(I(3)))]), S('x' * 60), S('y' * 120), S('w' * 100), S('u' * 90), L(*[I(i * 1000) for i in range(14)]),
        L(*[R(i + 0.5) for i in range(12)]), ('f', 1), U]


class FakeTime:
    def __init__(self):
        self.n = 0

    def time_ns(self):
        self.n += 1
        return self.n

    def __getattr__(self, name):
        import time
        return getattr(time, name)


def install_clock():
    import klongpy.db.file_cache as fc
    if not isinstance(fc.time, FakeTime):
        fc.time = FakeTime()


def to_py(c, k):
    from .c11_readwrite import to_py as tp
    from klongpy.core import KLONG_UNDEFINED
    if c == ('f', 1):
        return k('{x+1}')
    if c == U:
        return KLONG_UNDEFINED
    return tp(c)


def psize(c, k):
    from klongpy.db.helpers import serialize_obj
    return len(serialize_obj(to_py(c, k)))


def accounting(fc, fails):
    """FileCache accounting invariant (quiescent)."""
    with fc.file_futures_lock:
        entries = dict(fc.file_futures)
        heap = list(fc.file_access_times)
        cmu = fc.current_memory_usage
    writing = [f for f, info in entries.items() if info[0]]
    pending = [f for f, info in entries.items() if not info[2].done()]
    if writing or pending:
        fails.append(('accounting/not-quiescent', 'no writing / pending entries after the call returned', f'{writing} {pending}'))
        return
    total = sum(int(info[1]) for info in entries.values())
    if int(cmu) != total:
        fails.append(('accounting/sum', f'current_memory_usage == sum of cached entries = {total}', f'{cmu}'))
    if cmu < 0 or cmu > fc.max_memory:
        fails.append(('accounting/bounds', f'0 <= usage <= {fc.max_memory}', f'{cmu}'))
    names = [fn for _, fn in heap]
    for fn in names:
        if fn not in entries:
            fails.append(('accounting/heap-stale', 'every LRU-heap entry names a cached file', f'{fn!r} not cached'))
            break
    for fn in entries:
        if names.count(fn) != 1:
            fails.append(('accounting/heap-count', 'every cached file is in the LRU heap exactly once', f'{fn!r} x{names.count(fn)}'))
            break


class KVWorld:
    def __init__(self, limit_class):
        from klongpy import KlongInterpreter
        from klongpy.db.sys_fn_kvs import KeyValueStorage
        install_clock()
        self.KVS = KeyValueStorage
        self.k = KlongInterpreter()
        self.root = tempfile.mkdtemp(prefix='vk_c16_')
        sizes = [psize(v, self.k) for v in VALS]
        self.limit = {'one': max(sizes), 'few': int(1.7 * max(sizes)), 'all': 10 ** 6}[limit_class]
        self.limit_class = limit_class
        self.store = None
        self.open()
        self.model = {}
        self.ops = []
        self.fails = []
        self.flags = set()
        self.evicted = set()
        self.set_since_open = False

    def open(self):
        if self.store is not None:
            self.store.cache.executor.shutdown(wait=True)
        self.store = self.KVS(self.root, max_memory=self.limit)
        self.k['kv'] = self.store

    def close(self):
        try:
            self.store.cache.executor.shutdown(wait=True)
        finally:
            shutil.rmtree(self.root, ignore_errors=True)

    def fail(self, kind, exp, obs):
        self.fails.append((kind, exp, obs))

    def cached(self):
        return set(self.store.cache.file_futures)

    def note_evictions(self, before, touched):
        gone = (before - self.cached()) - {touched}
        if gone:
            self.evicted |= gone
            self.flags.add('eviction')

    def apply(self, op):
        self.ops.append(op)
        kind = op[0]
        before = self.cached()
        if kind == 'set':
            _, key, v, via = op
            if key in self.evicted:
                self.flags.add('overwrite-of-evicted-key')
            if via == 'klong' and v not in (('f', 1), U) and v[0] != 'd':
                self.k('kv,[' + render(S(key), True) + ' ' + render(v, True) + ']')
            else:
                self.store.set(key, to_py(v, self.k))
            # what the store holds is the value as klongpy represents it
            self.model[key] = to_canon(self.k(render(v))) if v not in (('f', 1), U) else v
            self.set_since_open = True
            self.note_evictions(before, key)
            self.evicted.discard(key)
        elif kind == 'oversize':
            _, key = op
            big = 'z' * (self.limit + 10)
            try:
                self.store.set(key, big)
                self.fail('oversize-accepted', 'MemoryError', 'set returned')
            except MemoryError:
                pass
        elif kind == 'get':
            _, key, via = op
            if key not in self.model:
                return self.apply_missing(key, via)
            if key in self.evicted:
                self.flags.add('re-read-after-eviction')
            want = self.model[key]
            if via == 'klong':
                got = self.k('kv?' + render(S(key)))
            else:
                got = self.store.get(key)
            self.check_value(key, got, want)
            self.note_evictions(before, key)
            self.evicted.discard(key)
        elif kind == 'missing':
            _, key, via = op
            self.apply_missing(key, via)
        elif kind == 'reopen':
            if self.set_since_open:
                self.flags.add('reopen-after-set')
            self.open()
            self.set_since_open = False
            self.evicted |= set(self.model)
        elif kind == 'unload':
            _, key = op
            self.store.cache.unload_file(key)
            if key in self.model:
                self.evicted.add(key)
        else:
            raise ValueError(op)

    def apply_missing(self, key, via):
        if via == 'klong':
            r = self.k(':_kv?' + render(S(key)))
            if to_canon(r) != ('i', 1):
                self.fail('missing-key/klong', ':_kv?k = 1 for a key never set', show(to_canon(r)))
        else:
            from klongpy.core import KLONG_UNDEFINED
            r = self.store.get(key)
            if r is not KLONG_UNDEFINED:
                self.fail('missing-key/py', ':undefined', show(to_canon(r)))

    def check_value(self, key, got, want):
        if want == U:
            self.k['g0'] = got
            if to_canon(self.k(':_g0')) != ('i', 1):
                self.fail('undefined-not-undefined', 'a stored :undefined still tests as undefined (:_v = 1)', repr(got)[:80])
            return
        c = to_canon(got)
        if not ceq(c, want, rtol=0, atol=0):
            self.fail('value', show(want), show(c) + f' for key {key!r}')

    def check(self):
        accounting(self.store.cache, self.fails)
        # the directory holds exactly one file per model key, with the pickled model value
        files = set()
        for dp, _, fns in os.walk(self.root):
            for fn in fns:
                files.add(os.path.relpath(os.path.join(dp, fn), self.root))
        if files != set(self.model):
            self.fail('directory/files', sorted(self.model), sorted(files))
            return
        for key, want in self.model.items():
            try:
                with open(os.path.join(self.root, key), 'rb') as fh:
                    v = pickle.load(fh)
            except Exception as e:
                self.fail('directory/unreadable', f'{key!r} holds a pickle', f'{type(e).__name__}: {e}')
                return
            if want != U and not ceq(to_canon(v), want, rtol=0, atol=0):
                self.fail('directory/content', show(want), show(to_canon(v)) + f' in file {key!r}')
                return

    def final(self):
        """Full scan through a freshly opened store."""
        self.open()
        for key, want in self.model.items():
            self.check_value(key, self.store.get(key), want)
        accounting(self.store.cache, self.fails)


# ----------------------------------------------------------------------------- table store

TKEYS = ['t1', 'dir/t2', 't3', 't4', 'dir/t5', 't6', 't7', 'e/f/t8', 't9', 't10']
TMISSING = ['never', 'dir/never', 'dir', 'e', 'e/f', 't1/x']     # never set: absent, below a plain file, or a directory of stored keys
COLSETS = [('a',), ('a', 'b'), ('a', 'c'), ('b',)]


def tspec_strategy():
    return st.tuples(st.lists(st.integers(0, 7), min_size=1, max_size=4, unique=True), st.sampled_from(COLSETS),
                     st.integers(0, 99))


class TWorld:
    def __init__(self, limit_class):
        from klongpy.db.sys_fn_kvs import TableStorage
        install_clock()
        self.TS = TableStorage
        self.root = tempfile.mkdtemp(prefix='vk_c16t_')
        self.limit = {'few': 1400, 'all': 10 ** 7}[limit_class]
        self.limit_class = limit_class
        self.store = None
        self.open()
        self.model = {}     # key -> (columns list, {index: {col: val}})
        self.ops = []
        self.fails = []
        self.flags = set()
        self.evicted = set()
        self.set_since_open = False

    def open(self):
        if self.store is not None:
            self.store.cache.executor.shutdown(wait=True)
        self.store = self.TS(self.root, max_memory=self.limit)

    def close(self):
        try:
            self.store.cache.executor.shutdown(wait=True)
        finally:
            shutil.rmtree(self.root, ignore_errors=True)

    def fail(self, kind, exp, obs):
        self.fails.append((kind, exp, obs))

    def cached(self):
        return set(self.store.cache.file_futures)

    def frame(self, spec):
        import pandas as pd
        idx, cols, base = spec
        data = {c: [float(base + 10 * j + i) if c == 'b' else int(base + 10 * j + i) for i in range(len(idx))]
                for j, c in enumerate(cols)}
        return pd.DataFrame(data, index=list(idx))

    def apply(self, op):
        from klongpy.db.sys_fn_db import Table
        from klongpy.core import KLONG_UNDEFINED
        self.ops.append(op)
        kind = op[0]
        before = self.cached()
        if kind == 'set':
            _, key, spec = op
            if key in self.evicted:
                self.flags.add('overwrite-of-evicted-key')
            df = self.frame(spec)
            self.store.set(key, Table(df))
            cols, rows = self.model.get(key, ([], {}))
            cols = list(cols) + [c for c in df.columns if c not in cols]
            rows = dict(rows)
            for i in df.index:
                if i not in rows:
                    rows[i] = {c: df.loc[i, c] for c in df.columns}
                else:
                    self.flags.add('index-overlap')
            self.model[key] = (cols, rows)
            self.set_since_open = True
            gone = (before - self.cached()) - {key}
            if gone:
                self.evicted |= gone
                self.flags.add('eviction')
            self.evicted.discard(key)
        elif kind == 'get':
            _, key = op
            got = self.store.get(key)
            if key not in self.model:
                if got is not KLONG_UNDEFINED:
                    self.fail('missing-key/table', ':undefined', repr(got)[:80])
                return
            if key in self.evicted:
                self.flags.add('re-read-after-eviction')
            self.check_table(key, got)
            gone = (before - self.cached()) - {key}
            if gone:
                self.evicted |= gone
                self.flags.add('eviction')
            self.evicted.discard(key)
        elif kind == 'reopen':
            if self.set_since_open:
                self.flags.add('reopen-after-set')
            self.open()
            self.set_since_open = False
            self.evicted |= set(self.model)
        elif kind == 'unload':
            _, key = op
            self.store.cache.unload_file(key)
            if key in self.model:
                self.evicted.add(key)
        else:
            raise ValueError(op)

    def check_table(self, key, got):
        cols, rows = self.model[key]
        if not hasattr(got, 'get_dataframe'):
            return self.fail('table/type', 'a table', repr(got)[:80])
        df = got.get_dataframe()
        if list(df.columns) != cols:
            return self.fail('table/columns', cols, list(df.columns))
        if list(df.index) != sorted(rows):
            return self.fail('table/index', sorted(rows), list(df.index))
        for i in sorted(rows):
            for c in cols:
                want = rows[i].get(c, float('nan'))
                have = df.loc[i, c]
                wn = isinstance(want, float) and math.isnan(want)
                hn = isinstance(have, float) and math.isnan(have) or (hasattr(have, 'dtype') and have != have)
                if wn != bool(hn) or (not wn and float(have) != float(want)):
                    return self.fail('table/cell', f'{want!r} at row {i} column {c}', f'{have!r}')

    def check(self):
        accounting(self.store.cache, self.fails)

    def final(self):
        self.open()
        for key in self.model:
            self.check_table(key, self.store.get(key))
        accounting(self.store.cache, self.fails)


# ----------------------------------------------------------------------------- machines

def make_machine(stats, report, which):
    class M(RuleBasedStateMachine):
        def __init__(self):
            super().__init__()
            self.w = None
            self.reported = False

        def world(self, data):
            if self.w is None:
                if which == 'kv':
                    self.w = KVWorld(data.draw(st.sampled_from(['one', 'one', 'few', 'few', 'all'])))
                else:
                    self.w = TWorld(data.draw(st.sampled_from(['few', 'few', 'all'])))
            return self.w

        def do(self, data, op):
            w = self.world(data)
            if self.reported:
                return
            try:
                w.apply(op)
                w.check()
            except Exception as e:
                w.fail('raised/' + op[0], 'operation succeeds', f'{type(e).__name__}: {e}'[:160])
            self.flush()

        def flush(self):
            w = self.w
            if w.fails and not self.reported:
                self.reported = True
                kind, exp, obs = w.fails[0]
                report(f"{which}/{kind}", {"which": which, "limit_class": w.limit_class, "ops": list(w.ops)}, expected=exp, observed=obs)

        if which == 'kv':
            @rule(data=st.data(), key=st.sampled_from(KEYS), v=st.sampled_from(VALS), via=st.sampled_from(['py', 'klong']))
            def set_(self, data, key, v, via):
                self.do(data, ('set', key, v, via))

            @rule(data=st.data(), key=st.sampled_from(KEYS), via=st.sampled_from(['py', 'klong']))
            def get(self, data, key, via):
                self.do(data, ('get', key, via))

            @rule(data=st.data(), key=st.sampled_from(MISSING), via=st.sampled_from(['py', 'klong']))
            def missing(self, data, key, via):
                self.do(data, ('missing', key, via))

            @rule(data=st.data(), key=st.sampled_from(KEYS))
            def oversize(self, data, key):
                self.do(data, ('oversize', key))
        else:
            @rule(data=st.data(), key=st.sampled_from(TKEYS), spec=tspec_strategy())
            def set_(self, data, key, spec):
                self.do(data, ('set', key, (tuple(spec[0]), spec[1], spec[2])))

            @rule(data=st.data(), key=st.sampled_from(TKEYS))
            def get(self, data, key):
                self.do(data, ('get', key))

            @rule(data=st.data(), key=st.sampled_from(TMISSING))
            def missing(self, data, key):
                self.do(data, ('get', key))

        @rule(data=st.data())
        def reopen(self, data):
            self.do(data, ('reopen',))

        @rule(data=st.data(), key=st.sampled_from(KEYS if which == 'kv' else TKEYS))
        def unload(self, data, key):
            self.do(data, ('unload', key))

        def teardown(self):
            w = self.w
            if w is None:
                return
            try:
                if not self.reported:
                    try:
                        w.final()
                    except Exception as e:
                        w.fail('raised/final-scan', 'fresh store reads every key', f'{type(e).__name__}: {e}'[:160])
                    if w.fails:
                        kind, exp, obs = w.fails[0]
                        # teardown cannot raise into Hypothesis' shrinker reliably: record directly
                        stats.fail(f"{which}/final/{kind}", {"which": which, "limit_class": w.limit_class, "ops": list(w.ops)}, exp, obs)
                nontriv = bool(w.flags & {'re-read-after-eviction', 'reopen-after-set', 'overwrite-of-evicted-key'})
                stats.extra['steps'] = stats.extra.get('steps', 0) + len(w.ops)
                stats.case((which, w.limit_class, tuple(map(repr, w.ops))), nontrivial=nontriv,
                           classes=['store:' + which, 'limit:' + w.limit_class] + ['flag:' + f for f in sorted(w.flags)],
                           sample={"which": which, "limit": w.limit, "ops": [list(map(_short, o)) for o in w.ops[:25]]} if len(w.ops) >= 5 else None)
            finally:
                w.close()
    return M


def _short(x):
    s = show(x) if isinstance(x, tuple) and x and isinstance(x[0], str) and x[0] in 'ircsyldfu' and x != () else x
    return s if not isinstance(s, str) or len(s) < 40 else s[:40] + '...'


def minimise(fkey, case):
    def fails_same(ops):
        r = replay(dict(case, ops=core.jsonable(ops)))
        return bool(r) and r[0][0] == fkey
    ops = core.ddmin_list(list(case["ops"]), fails_same, max_tests=120)
    return dict(case, ops=ops)


def shard(which, seed_value, n, steps):
    stats = core.Stats()
    f = core.Findings("C16")
    core.run_machine_collect(stats, lambda report: make_machine(stats, report, which), seed_value, n, steps, rounds=6,
                             is_known=lambda k: f.match(k) is not None, minimise=minimise)
    return stats


def check(run):
    quick = run.tier == 'quick'
    jobs = [('kv', run.seed * 1000 + i, 100 if quick else 2000, 40) for i in range(11)]
    jobs += [('table', run.seed * 1000 + 50 + i, 60 if quick else 1000, 25) for i in range(5)]
    run.absorb(core.pool_map('vk.c16_store', 'shard', jobs))
    run.min_class_fraction = {'flag:eviction': 0.08, 'flag:reopen-after-set': 0.1}


def replay(case):
    ops = from_json(case["ops"])
    w = KVWorld(case["limit_class"]) if case["which"] == 'kv' else TWorld(case["limit_class"])
    try:
        for op in ops:
            try:
                w.apply(op)
                w.check()
            except Exception as e:
                w.fail('raised/' + str(op[0]), 'operation succeeds', f'{type(e).__name__}: {e}'[:160])
            if w.fails:
                break
        if not w.fails:
            w.final()
        return [(f"{case['which']}/{f[0]}", f[1], f[2]) for f in w.fails[:3]]
    finally:
        w.close()
