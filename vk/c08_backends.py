"""C08 - numeric programs mean the same under the NumPy and PyTorch backends.

Generator: program trees (depth <= 3) over the numeric core x bindings; a second generator emits
programs built only from compiler-supported operations.  Oracle: numpy vs torch(cpu)
differential on value (shape, kind, elements within single-precision tolerance) and on writer
text.  DESIGN.md 3/C08.
"""
import math
import re

from hypothesis import given, strategies as st

from . import core
from .canon import to_canon, ceq, category, render, show, shape_class, same_shape, I, R, L
from .c05_compiled import operand_trait, _has

LEVEL = "exploration"
RULE = ("program tree (depth<=3) over the numeric core {+ - * % ^ ! :% = < > | & dyads; - _ # | monads; +/ -/ */ %/ |/ &/ "
        "and scans; each with a lambda; @ indexing; take/drop/reverse/join of numeric lists} over variables a b c bound "
        "to integer/real scalars, vectors and matrices (|n| < 2^24, reals multiples of 1/8), evaluated under backend=numpy "
        "and backend=torch(cpu); a second generator emits compiler-only programs which must be accepted by both backends; "
        "non-trivial = both backends returned, some operand is a list and depth>=2; distinct by (program, bindings)")
ASSUMPTIONS = [
    "a non-integral real within float32 tolerance of an integer may legitimately come back as an integer from torch (Power's integral-result coercion is precision-dependent)",
    "elements compared rel 1e-5 / abs 1e-6 (float32 rounding); integer/real kind and nesting compared exactly",
    "writer texts are tokenised: bracket structure and integer tokens identical, real tokens within the same tolerance",
    "a case where both results hold inf/nan/|n|>=2^62 (overflow or pole) is rejected, not judged",
    "if only one backend returns nothing is judged, except for compiler-only programs",
]

DY = ['+', '-', '*', '%', '^', '!', ':%', '=', '<', '>', '|', '&']
MO = ['-', '_', '#', '|']
RED = ['+', '-', '*', '%', '|', '&']
LAMS = ['{x*2}', '{x+1}', '{-x}', '{x*x}']
COMPILABLE_DY = ['+', '-', '*', '%', '^', '=', '<', '>']
COMPILABLE_RED = ['+', '*', '|', '&']

BIND = [
    I(0), I(1), I(2), I(3), I(-5), I(7), I(100),
    R(0.5), R(2.0), R(-1.25), R(3.125),
    L(I(1), I(2), I(3)), L(I(4), I(0), I(-2), I(9)), L(I(5)), L(I(3), I(1), I(2)),
    L(R(0.5), R(1.5), R(2.0)), L(R(2.25), R(-0.5), R(4.0), R(1.0)),
    L(L(I(1), I(2)), L(I(3), I(4))), L(L(I(1), I(2), I(3)), L(I(4), I(5), I(6))),
    L(L(R(0.5), R(1.5)), L(R(2.5), R(3.0))), L(L(I(2)), L(I(3)), L(I(4))),
]


def leaf(vars_):
    return st.one_of(st.sampled_from([('v', v) for v in vars_]), st.sampled_from([('v', v) for v in vars_]),
                     st.sampled_from([('n', 0), ('n', 1), ('n', 2), ('n', 3), ('n', 0.5), ('n', 2.0), ('n', -1)]))


def programs(vars_, compilable_only):
    def ext(ch):
        if compilable_only:
            return st.one_of(
                st.tuples(st.just('d'), st.sampled_from(COMPILABLE_DY), ch, ch),
                st.tuples(st.just('m'), st.just('-'), ch),
                st.tuples(st.just('red'), st.sampled_from(COMPILABLE_RED), ch),
                st.tuples(st.just('scan'), st.sampled_from(COMPILABLE_RED), ch))
        return st.one_of(
            st.tuples(st.just('d'), st.sampled_from(DY), ch, ch),
            st.tuples(st.just('d'), st.sampled_from(DY), ch, ch),
            st.tuples(st.just('m'), st.sampled_from(MO), ch),
            st.tuples(st.just('red'), st.sampled_from(RED), ch),
            st.tuples(st.just('scan'), st.sampled_from(RED), ch),
            st.tuples(st.just('each'), st.sampled_from(LAMS), ch),
            st.tuples(st.just('idx'), ch, st.sampled_from(['0', '1', '[0 1]', '[1 0 1]'])),
            st.tuples(st.just('take'), st.sampled_from(['1', '2', '(-2)', '5', '0']), ch),
            st.tuples(st.just('drop'), st.sampled_from(['1', '2', '(-1)', '7']), ch),
            st.tuples(st.just('join'), ch, ch))
    return st.recursive(leaf(vars_), ext, max_leaves=5).filter(lambda e: e[0] not in 'vn' and depth(e) <= 3 and has_var(e))


def kids(e):
    return [x for x in e[1:] if isinstance(x, tuple)]


def depth(e):
    return 0 if e[0] in 'vn' else 1 + max([depth(x) for x in kids(e)] or [0])


def has_var(e):
    return e[0] == 'v' or any(has_var(x) for x in kids(e))


def vars_of(e):
    if e[0] == 'v':
        return {e[1]}
    s = set()
    for x in kids(e):
        s |= vars_of(x)
    return s


def subexprs(e):
    yield e
    for x in kids(e):
        yield from subexprs(x)


def P(e):
    """text of e, parenthesised when used as an operand"""
    t = text(e)
    return t if e[0] == 'v' or (e[0] == 'n' and not t.startswith('-') and not t.startswith('(')) else '(' + t + ')'


def text(e):
    t = e[0]
    if t == 'v':
        return e[1]
    if t == 'n':
        return repr(e[1]) if e[1] >= 0 else '(' + repr(e[1]) + ')'
    if t == 'd':
        return P(e[2]) + e[1] + P(e[3])
    if t == 'm':
        return e[1] + P(e[2])
    if t == 'red':
        return e[1] + '/' + P(e[2])
    if t == 'scan':
        return e[1] + '\\' + P(e[2])
    if t == 'each':
        return e[1] + "'" + P(e[2])
    if t == 'idx':
        return P(e[1]) + '@' + e[2]
    if t == 'take':
        return e[1] + '#' + P(e[2])
    if t == 'drop':
        return e[1] + '_' + P(e[2])
    if t == 'join':
        return P(e[1]) + ',' + P(e[2])
    raise ValueError(e)


def opname(e):
    return {'d': lambda: e[1], 'm': lambda: 'monad' + e[1], 'red': lambda: e[1] + '/', 'scan': lambda: e[1] + '\\',
            'each': lambda: "each", 'idx': lambda: '@', 'take': lambda: '#take', 'drop': lambda: '_drop',
            'join': lambda: ','}[e[0]]()


_K = {}


def interp(backend):
    """One interpreter per backend and process, recycled every 300 evaluations (variables are rebound
    before every evaluation; a fresh one costs ~1 ms on torch)."""
    from klongpy import KlongInterpreter
    ent = _K.get(backend)
    if ent is None or ent[1] >= 300:
        ent = [KlongInterpreter(backend='torch', device='cpu') if backend == 'torch' else KlongInterpreter(), 0]
        _K[backend] = ent
    ent[1] += 1
    return ent[0]


def evaluate(backend, e, binds):
    from klongpy.core import kg_write
    k = interp(backend)
    try:
        for v, c in binds.items():
            k(v + '::' + render(c))
    except Exception as ex:
        return ('bind-error', type(ex).__name__, None)
    try:
        r = k(text(e))
    except RecursionError:
        return ('err', 'RecursionError', None)
    except Exception as ex:
        return ('err', type(ex).__name__, None)
    try:
        w = kg_write(r, k._backend)
    except Exception as ex:
        w = 'WRITE-ERROR ' + type(ex).__name__
    return ('val', to_canon(r), w)


def garbage(c):
    return _has(c, lambda n: abs(n) >= 2 ** 62 or (isinstance(n, float) and not math.isfinite(n)))


RT, AT = 1e-5, 1e-6
_TOK = re.compile(r'[\[\]]|[^\s\[\]]+')


def texts_agree(a, b):
    ta, tb = _TOK.findall(a), _TOK.findall(b)
    if len(ta) != len(tb):
        return False
    for x, y in zip(ta, tb):
        if x == y:
            continue
        try:
            fx, fy = float(x), float(y)
        except ValueError:
            return False
        isint = lambda s: re.fullmatch(r'-?\d+', s) is not None
        if not (abs(fx - fy) <= AT + RT * max(abs(fx), abs(fy))):
            return False
        if isint(x) != isint(y):
            real = fy if isint(x) else fx      # see agree(): near-integral real vs float32 integer
            if real == round(real) or abs(real - round(real)) > AT + RT * abs(real):
                return False
    return True


def agree(a, b):
    """numpy value a vs torch value b: same structure, elements within single-precision tolerance, same
    integer/real kind - except that a real which lies within that tolerance of an integer may come back as
    an integer from the float32 backend (Power coerces integral results; 6.75^6.75 is integral in float32)."""
    if a[0] == 'l' or b[0] == 'l':
        return a[0] == b[0] and len(a[1]) == len(b[1]) and all(agree(x, y) for x, y in zip(a[1], b[1]))
    if a[0] in 'ir' and b[0] in 'ir':
        fa, fb = float(a[1]), float(b[1])
        if not (fa == fb or abs(fa - fb) <= AT + RT * max(abs(fa), abs(fb))):
            return False
        if a[0] == b[0]:
            return True
        real = fa if a[0] == 'r' else fb
        return real != round(real) and abs(real - round(real)) <= AT + RT * abs(real)
    return ceq(a, b, rtol=RT, atol=AT)


def compare(n, t):
    """None if agree else (category, expected(numpy), observed(torch))."""
    if n[0] != 'val' or t[0] != 'val':
        return None
    if not agree(n[1], t[1]):
        return (category(n[1], t[1]), show(n[1])[:150], show(t[1])[:150])
    if not texts_agree(n[2], t[2]):
        return ('text', n[2][:150], t[2][:150])
    return None


def blame(e, binds):
    """Smallest sub-expression on which the backends disagree while all its operands agree."""
    best = None
    for s in subexprs(e):
        if s[0] in 'vn':
            continue
        b = {v: binds[v] for v in vars_of(s)}
        n, t = evaluate('numpy', s, b), evaluate('torch', s, b)
        d = compare(n, t)
        if d is None and not (n[0] != t[0] and n[0] in ('val', 'err') and t[0] in ('val', 'err')):
            continue
        if best is None or len(repr(s)) < len(repr(best[0])):
            best = (s, n, t, d)
    return best


def finding_key(e, binds, kind):
    bl = blame(e, binds)
    if bl is None:
        return f"{kind}/context/{opname(e)}"
    s, n, t, d = bl
    traits = []
    for x in kids(s):
        b = {v: binds[v] for v in vars_of(x)}
        r = evaluate('numpy', x, b)
        traits.append(operand_trait(r[1]) if r[0] == 'val' else 'err')
    cat = d[0] if d else f"{n[0]}-vs-{t[0]}"
    return f"{kind}/{opname(s)}/{','.join(traits)}/{cat}"


def _leaves(c, f):
    if c[0] == 'l':
        out = []
        for x in c[1]:
            out += _leaves(x, f)
        return out
    return [f(c[1])] if c[0] in 'ir' else []


def all_int(c):
    if c[0] == 'l':
        return all(all_int(x) for x in c[1])
    return c[0] == 'i'


def out_of_domain(e, binds):
    """Reference domain of the verbs used: Remainder and Integer-Divide take integers only; a power
    whose base holds 0 with a negative exponent is a pole. Checked on the numpy values of the operands."""
    for s in subexprs(e):
        if s[0] not in 'vn':
            r = evaluate('numpy', s, {v: binds[v] for v in vars_of(s)})
            if r[0] == 'val' and _has(r[1], lambda n: abs(n) >= 2 ** 24):
                return 'magnitude beyond 2^24 (float32 no longer holds integers exactly)'
            if r[0] == 'val' and _has(r[1], lambda n: n != 0 and abs(n) < 1e-30):
                return 'magnitude below 1e-30 (float32 underflows to 0)'
        if s[0] == 'd' and s[1] in ('!', ':%', '^'):
            vals = []
            for x in kids(s):
                r = evaluate('numpy', x, {v: binds[v] for v in vars_of(x)})
                if r[0] != 'val':
                    vals = None         # an operand that does not evaluate: this node is judged through its inner nodes
                    break
                vals.append(r[1])
            if vals is None:
                continue
            if s[1] in ('!', ':%') and not (all_int(vals[0]) and all_int(vals[1])):
                return 'remainder / integer-divide with a non-integer operand'
            if s[1] == '^' and _has(vals[0], lambda n: n == 0) and _has(vals[1], lambda n: n < 0):
                return 'zero raised to a negative power (pole)'
            if s[1] == '^':
                big_base = max(_leaves(vals[0], abs), default=0)
                big_exp = max(_leaves(vals[1], abs), default=0)
                if big_base > 1 and big_exp * math.log2(big_base) > 24:
                    return 'power beyond 2^24 (float32 no longer holds integers exactly; integer tensors wrap)'
    return None


def judge(stats, report, e, binds, compilable_only):
    why = out_of_domain(e, binds)
    if why:
        stats.reject(why)
        return
    n = evaluate('numpy', e, binds)
    t = evaluate('torch', e, binds)
    if n[0] == 'bind-error' or t[0] == 'bind-error':
        stats.reject('binding not accepted')
        return
    both = n[0] == 'val' and t[0] == 'val'
    has_list = any(c[0] == 'l' for c in binds.values())
    cls = ['compilable-only' if compilable_only else 'numeric-core', 'both-returned' if both else
           'numpy-only' if n[0] == 'val' else 'torch-only' if t[0] == 'val' else 'both-raise']
    cls += ['op:' + opname(s) for s in subexprs(e) if s[0] not in 'vn']
    key = (text(e), tuple(sorted(binds.items())))
    stats.case(key, nontrivial=both and has_list and depth(e) >= 2, classes=sorted(set(cls)),
               sample={"program": text(e), "bindings": {v: show(c) for v, c in binds.items()},
                       "numpy": (n[2] if n[0] == 'val' else n[0] + ':' + str(n[1])), "torch": (t[2] if t[0] == 'val' else t[0] + ':' + str(t[1]))})
    case = {"tree": e, "program": text(e), "binds": binds, "compilable_only": compilable_only}
    if both:
        if garbage(n[1]) and garbage(t[1]):
            stats.reject('both results hold inf/nan/overflow')
            return
        d = compare(n, t)
        if d is not None:
            report(finding_key(e, binds, 'value'), case, expected='numpy: ' + d[1], observed='torch: ' + d[2])
        return
    if compilable_only and (n[0] == 'val') != (t[0] == 'val'):
        report(finding_key(e, binds, 'acceptance'), case,
               expected='accepted by both backends (compiler-only program); numpy: ' + (n[2] if n[0] == 'val' else n[1]),
               observed='torch: ' + (t[2] if t[0] == 'val' else t[1]))


@st.composite
def cases(draw, compilable_only):
    e = draw(programs(['a', 'b', 'c'], compilable_only))
    binds = {v: draw(st.sampled_from(BIND)) for v in sorted(vars_of(e))}
    return e, binds


def shard(compilable_only, seed_value, n):
    stats = core.Stats()
    f = core.Findings("C08")

    def make_test(report):
        @given(cases(compilable_only))
        def t(c):
            judge(stats, report, c[0], c[1], compilable_only)
        return t
    core.hyp_collect(stats, make_test, seed_value, n, rounds=12, is_known=lambda k: f.match(k) is not None)
    return stats


def check(run):
    quick = run.tier == 'quick'
    per = 1500 if quick else 25000
    jobs = [(False, run.seed * 1000 + i, per) for i in range(11)] + [(True, run.seed * 1000 + 50 + i, per) for i in range(5)]
    run.absorb(core.pool_map('vk.c08_backends', 'shard', jobs))
    run.min_class_fraction = {'both-returned': 0.3}


def replay(case):
    from .canon import from_json
    out = []
    st_ = core.Stats()

    def report(fkey, case_, expected=None, observed=None, note=None):
        out.append((fkey, expected, observed))
    binds = {v: from_json(c) for v, c in case["binds"].items()}
    judge(st_, report, from_json(case["tree"]), binds, case["compilable_only"])
    return out
