"""C14 - every remote call gets its own answer or an error: never another's, never hangs.

The real NetworkClient runs on a loop thread with a harness-defined ConnectionProvider (a real asyncio.StreamReader and a
recording writer).  1-3 caller threads call nc.call(payload); the harness reads the request ids from the writer and plays
a schedule: response order, stream fragmentation, loss (EOF / reset) at a chosen byte, foreign and duplicate frames,
calls after the loss, close() with calls pending.  DESIGN.md 3/C14.
"""
import asyncio
import itertools
import threading
import time
import uuid

from hypothesis import given, strategies as st

from . import core

LEVEL = "exploration"
RULE = ("schedule = number of concurrent calls (1-3) x delivery order of their responses x fragmentation of the response "
        "stream x loss (none / EOF / connection reset) after a chosen byte (before any byte, inside the id, at the id-length "
        "boundary, inside the length, after the header, inside the body, exactly between frames) x optional foreign frame / "
        "duplicate response x optional call after the loss x optional close() (acknowledged) with calls pending x loss "
        "before the calls are made x response arriving while the request is still being drained (paused transport); non-trivial = >=2 calls answered out of request order, or a loss / close with a call "
        "pending; distinct by schedule")
ASSUMPTIONS = [
    "oracle: a caller whose complete response frame was fed before the loss returns exactly the response built for its own request; "
    "every other caller raises; nobody is still blocked 10 s after the last feed (confirmed structurally: the listener has "
    "exited or consumed everything while the caller is still waiting); a call made after the listener exited raises",
    "after each feed the loop is given time to consume the data, so 'fed before the loss' means 'processed before the loss'",
    "responses are integers and the foreign frame is the text 1+1, so that a duplicate or foreign frame is a valid server-push "
    "command and does not end the connection",
    "the interleaving inside call() between the caller thread and the loop thread is sequenced only coarsely (before / after "
    "the listener exit)",
]

DEADLINE = 10.0
_G = {}


def env():
    if not _G:
        core.setup_repo_path()
        import logging
        logging.disable(logging.CRITICAL)
        from .netharness import LoopThread
        from klongpy import KlongInterpreter
        _G['io'] = LoopThread()
        _G['kl'] = LoopThread()
        _G['klong'] = KlongInterpreter()
    return _G['io'], _G['kl'], _G['klong']


class FakeWriter:
    def __init__(self):
        self.buf = bytearray()
        self.closed = False
        self.cond = threading.Condition()
        self.on_frame = None            # callback(id, message) run on the loop thread as soon as a request frame is complete
        self.seen = 0
        self.slow_drain = False         # a paused transport: drain() really suspends

    def write(self, data):
        with self.cond:
            self.buf += data
            self.cond.notify_all()
        if self.on_frame is not None:
            fr = self.frames()
            while self.seen < len(fr):
                self.on_frame(*fr[self.seen])
                self.seen += 1

    async def drain(self):
        if self.slow_drain:
            await asyncio.sleep(0)
            await asyncio.sleep(0)
        return None

    def close(self):
        self.closed = True

    def is_closing(self):
        return self.closed

    async def wait_closed(self):
        return None

    def get_extra_info(self, name, default=None):
        return ('127.0.0.1', 1) if name == 'peername' else default

    def frames(self):
        """complete frames written so far: [(id, message)]"""
        import pickle
        import struct
        out = []
        b = bytes(self.buf)
        i = 0
        while len(b) - i >= 20:
            n = struct.unpack('!I', b[i + 16:i + 20])[0]
            if len(b) - i - 20 < n:
                break
            out.append((uuid.UUID(bytes=b[i:i + 16]), pickle.loads(b[i + 20:i + 20 + n])))
            i += 20 + n
        return out

    def wait_frames(self, n, timeout=5.0):
        t0 = time.time()
        with self.cond:
            while len(self.frames()) < n:
                left = timeout - (time.time() - t0)
                if left <= 0:
                    return False
                self.cond.wait(left)
        return True


def make_provider(reader, writer):
    from klongpy.sys_fn_ipc import ConnectionProvider, KlongIPCCreateConnectionException

    class Provider(ConnectionProvider):
        """mirrors HostPortConnectionProvider: open until somebody closes the writer (an EOF from the peer does not close it)"""

        def __init__(self):
            self.used = False
            self.writer = writer
            self.reader = reader

        async def connect(self):
            if self.used:
                raise KlongIPCCreateConnectionException()
            self.used = True
            return self.reader, self.writer

        async def close(self):
            if self.writer is not None:
                self.writer.close()
            self.writer = None
            self.reader = None

        def is_open(self):
            return self.writer is not None and not self.writer.is_closing()

        def __str__(self):
            return "remote[harness]"
    return Provider()


class Caller(threading.Thread):
    def __init__(self, fn):
        super().__init__(daemon=True)
        self.fn = fn
        self.outcome = None
        self.done_at = None

    def run(self):
        try:
            self.outcome = ('ok', self.fn())
        except BaseException as e:  # noqa
            self.outcome = ('err', type(e).__name__)
        self.done_at = time.time()


def feed(io, reader, data, yields=6):
    async def go():
        if data:
            reader.feed_data(data)
        for _ in range(yields):
            await asyncio.sleep(0)
    io.run(go())


def drain(io, reader, nc, remainder, timeout=5.0):
    async def go():
        t0 = time.time()
        while len(reader._buffer) > remainder and not nc._run_exit_event.is_set() and time.time() - t0 < timeout:
            await asyncio.sleep(0.001)
        for _ in range(6):
            await asyncio.sleep(0)
    io.run(go())


def probes_pass(io, k=20):
    """Load-adaptive part of the hang verdict.  A waiting caller needs the io loop to run its coroutine and the
    scheduler to wake its thread; on a loaded machine that alone can take longer than any fixed grace period.  So
    before a caller is declared hung, k fresh threads, one after the other, each make the same trip (submit a
    coroutine to the io loop, wait for its result, end).  All of them were started after the state that settles the
    outcome was confirmed; if they all get through while the caller is still waiting, the caller is not waiting for
    the scheduler."""
    async def noop():
        await asyncio.sleep(0)

    for _ in range(k):
        t = Caller(lambda: asyncio.run_coroutine_threadsafe(noop(), io.loop).result())
        t.start()
        t.join(DEADLINE)
        if t.is_alive():
            return False
    return True


def settle(io, n=10):
    async def go():
        for _ in range(n):
            await asyncio.sleep(0)
    io.run(go())


def run_schedule(s):
    """s: dict(n, order, cuts, loss=(kind, frame_index, offset)|None, extra=None|'foreign'|'duplicate', after_call, close, early_loss)
    returns (verdicts list, info)"""
    from klongpy.sys_fn_ipc import NetworkClient, encode_message, KGRemoteCloseConnection
    io, kl, klong = env()
    n = s['n']

    async def mk():
        return asyncio.StreamReader()
    reader = io.run(mk())
    writer = FakeWriter()
    # remember every future created on the io loop during the case, so that whoever still waits can be released afterwards
    created = []
    orig_create_future = io.loop.create_future

    def recording_create_future():
        f = orig_create_future()
        created.append(f)
        return f
    io.loop.create_future = recording_create_future
    nc = NetworkClient(io.loop, kl.loop, klong, make_provider(reader, writer))
    nc.run_client()
    instant = bool(s.get('instant'))
    if instant:
        # a fast peer on a paused transport: the response is in the reader before drain() returns
        writer.slow_drain = True

        def reply(mid, msg):
            if isinstance(msg, int) and 1000 <= msg < 1100:
                reader.feed_data(encode_message(mid, 200 + (msg - 1000)))
        writer.on_frame = reply
    problems = []

    def lose(kind):
        async def go():
            if kind == 'eof':
                reader.feed_eof()
            else:
                reader.set_exception(ConnectionResetError())
            for _ in range(6):
                await asyncio.sleep(0)
        io.run(go())

    if s.get('early_loss'):
        lose(s['early_loss'])
        nc._run_exit_event.wait(DEADLINE)

    callers = []
    for i in range(n):
        c = Caller(lambda i=i: nc.call(1000 + i))
        c.start()
        callers.append(c)
        if not s.get('early_loss'):
            if not writer.wait_frames(i + 1):
                # the request never reached the writer: the call must have failed already
                c.join(DEADLINE)
    reqs = writer.frames()
    ids = {}
    for mid, msg in reqs:
        if isinstance(msg, int) and 1000 <= msg < 1000 + n:
            ids[msg - 1000] = mid

    delivered = set()
    lost = bool(s.get('early_loss'))
    closer = None
    if instant:
        delivered = set(range(n))
    elif not s.get('early_loss'):
        # the response stream in delivery order
        frames = []
        for j in s['order']:
            if j in ids:
                frames.append(('resp', j, encode_message(ids[j], 200 + j)))
        if s.get('extra') == 'foreign':
            frames.insert(min(1, len(frames)), ('foreign', None, encode_message(uuid.UUID(int=7), "1+1")))
        elif s.get('extra') == 'duplicate' and frames:
            frames.insert(1, ('dup', frames[0][1], frames[0][2]))
        stream = b''.join(f[2] for f in frames)
        bounds = list(itertools.accumulate(len(f[2]) for f in frames))
        starts = [0] + bounds[:-1]
        loss_at = None
        if s.get('loss'):
            kind, fi, off = s['loss']
            fi = min(fi, len(frames) - 1)
            flen = len(frames[fi][2])
            loss_at = starts[fi] + (flen if off == 'end' else min(off, flen - 1))
        if s.get('close') is not None:
            # close() is issued after `close` responses have been delivered; it is acknowledged
            upto = bounds[s['close'] - 1] if s['close'] > 0 else 0
            loss_at = None
        cuts = sorted(set(c for c in s.get('cuts', ()) if 0 < c < len(stream)))
        limit = len(stream) if loss_at is None else loss_at
        if s.get('close') is not None:
            limit = upto
        pos = 0
        for c in cuts + [limit]:
            if c > limit:
                break
            if c > pos:
                feed(io, reader, stream[pos:c])
                pos = c
        if pos < limit:
            feed(io, reader, stream[pos:limit])
        last_complete = 0
        for (kind_, j, fr), end in zip(frames, bounds):
            if end <= limit:
                last_complete = end
                if kind_ == 'resp':
                    delivered.add(j)
        # let the listener consume every complete frame before anything else happens (a foreign / duplicate frame is
        # executed on the klong loop, which takes a thread hop)
        drain(io, reader, nc, limit - last_complete)
        if s.get('loss'):
            lose(s['loss'][0])
            lost = True
        elif s.get('close') is not None:
            before = len(writer.frames())
            closer = Caller(lambda: nc.close())
            closer.start()
            if writer.wait_frames(before + 1):
                mid, msg = writer.frames()[-1]
                if isinstance(msg, KGRemoteCloseConnection):
                    feed(io, reader, encode_message(mid, msg))
            lost = True

    if lost and s.get('after_call'):
        nc._run_exit_event.wait(DEADLINE)
        late = Caller(lambda: nc.call(5000))
        late.start()
    else:
        late = None

    # wait for everybody
    t_end = time.time() + DEADLINE
    everyone = callers + ([late] if late else []) + ([closer] if closer else [])
    confirmed_at = None
    while time.time() < t_end and any(c.is_alive() for c in everyone):
        time.sleep(0.002)
        # once the listener has exited nothing can complete a waiting call any more: 0.5 s of grace is then enough
        if nc._run_exit_event.is_set() or (not lost and len(reader._buffer) == 0):
            # ... and when nothing was lost and every fed byte has been consumed, nothing more will arrive either
            confirmed_at = confirmed_at or time.time()
            if time.time() - confirmed_at > 0.5 and probes_pass(io):
                break
        else:
            confirmed_at = None
    settle(io)
    verdicts = []
    for i, c in enumerate(callers):
        if c.is_alive():
            # structural confirmation: nothing more can arrive for this caller
            structural = nc._run_exit_event.is_set() or (i in delivered) or not lost
            verdicts.append(('hang', i, 'listener exited' if nc._run_exit_event.is_set() else 'response consumed' if i in delivered else 'waiting'))
            continue
        if i in delivered:
            if c.outcome != ('ok', 200 + i):
                verdicts.append(('wrong', i, f'expected its own response {200 + i}, got {c.outcome}'))
        elif lost:
            if c.outcome[0] != 'err':
                verdicts.append(('no-error', i, f'connection lost before its response, yet it returned {c.outcome}'))
        else:
            verdicts.append(('harness', i, f'not delivered and not lost: {c.outcome}'))
    if late is not None:
        if late.is_alive():
            verdicts.append(('late-hang', -1, 'a call made after the listener exited is still waiting'))
        elif late.outcome[0] != 'err':
            verdicts.append(('late-no-error', -1, f'a call made after the listener exited returned {late.outcome}'))
    if closer is not None and closer.is_alive():
        verdicts.append(('close-hang', -1, 'close() acknowledged by the peer is still waiting'))
    info = {"pending_after": len(nc.pending_responses), "listener_exited": nc._run_exit_event.is_set()}
    # tear down: release whoever still waits (after the verdict), end the listener if it still runs
    def release():
        for fut in list(nc.pending_responses.values()) + created:
            if not fut.done():
                fut.set_exception(RuntimeError("harness teardown"))
    io.loop.call_soon_threadsafe(release)
    io.loop.create_future = orig_create_future
    if not nc._run_exit_event.is_set():
        nc.running = False
        try:
            lose('eof')
        except Exception:
            pass
        nc._run_exit_event.wait(2)
    return verdicts, info


def describe(s):
    d = {k: v for k, v in s.items() if v not in (None, False, (), [])}
    return d


def nontrivial(s):
    n = s['n']
    out_of_order = n >= 2 and list(s['order']) != sorted(s['order'])
    return out_of_order or bool(s.get('loss')) or s.get('close') is not None or bool(s.get('early_loss')) or bool(s.get('instant'))


def judge(stats, report, s):
    try:
        verdicts, info = run_schedule(s)
    except core.HarnessError:
        raise
    classes = ['calls:%d' % s['n']]
    if s.get('loss'):
        classes += ['loss:' + s['loss'][0], 'loss at:' + str(s['loss'][2])]
    if s.get('early_loss'):
        classes.append('loss before the calls')
    if s.get('instant'):
        classes.append('response arrives while the request is being drained')
    if s.get('extra'):
        classes.append('extra:' + s['extra'])
    if s.get('after_call'):
        classes.append('call after loss')
    if s.get('close') is not None:
        classes.append('close with %d pending' % (s['n'] - s['close']))
    if list(s['order']) != sorted(s['order']):
        classes.append('out of order')
    stats.case(('sched', repr(sorted(s.items(), key=repr))), nontrivial=nontrivial(s), classes=classes, sample=describe(s))
    stats.extra['max_pending_after_exit'] = max(stats.extra.get('max_pending_after_exit', 0), info['pending_after'] if info['listener_exited'] else 0)
    for kind, who, what in verdicts:
        if kind == 'harness':
            raise core.HarnessError(f"schedule {s}: {what}")
        where = 'instant-reply' if s.get('instant') else 'early' if s.get('early_loss') else ('loss:%s@%s' % (s['loss'][0], s['loss'][2]) if s.get('loss') else ('close' if s.get('close') is not None else 'no-loss'))
        report(f'{kind}/{where}', {"schedule": describe(s)}, expected='own response or an error, promptly', observed=what)
        return


OFFSETS = [0, 5, 16, 18, 20, 23, 'end']


def exhaustive_schedules():
    out = []
    for n in (1, 2, 3):
        for order in itertools.permutations(range(n)):
            for frag in ('whole', 'frames', 'header'):
                flen = 25     # every response frame is 20 + 5 bytes (small int pickles to 5 bytes; checked at run time)
                if frag == 'whole':
                    cuts = ()
                elif frag == 'frames':
                    cuts = tuple(flen * (i + 1) for i in range(n - 1))
                else:
                    cuts = tuple(flen * i + o for i in range(n) for o in (16, 20, 22))
                out.append(dict(n=n, order=order, cuts=cuts))
                for kind in ('eof', 'reset'):
                    for fi in range(n):
                        for off in OFFSETS:
                            if off == 0 and fi > 0:
                                continue        # = 'end' of the previous frame
                            out.append(dict(n=n, order=order, cuts=cuts, loss=(kind, fi, off), after_call=(fi == 0)))
            for close_after in range(n + 1):
                out.append(dict(n=n, order=order, cuts=(), close=close_after, after_call=close_after == 0))
            for extra in ('foreign', 'duplicate'):
                out.append(dict(n=n, order=order, cuts=(), extra=extra))
                out.append(dict(n=n, order=order, cuts=(), extra=extra, loss=('eof', n - 1, 18)))
        for kind in ('eof', 'reset'):
            out.append(dict(n=n, order=tuple(range(n)), cuts=(), early_loss=kind, after_call=True))
        out.append(dict(n=n, order=tuple(range(n)), cuts=(), instant=True))
    return out


def shard_exh(part, parts):
    stats = core.Stats()
    f = core.Findings("C14")
    seen = set()

    def report(fkey, case, expected=None, observed=None, note=None):
        if fkey in seen and f.match(fkey) is None:
            stats.fail(fkey, case, expected, observed, note)
            return
        seen.add(fkey)
        stats.fail(fkey, case, expected, observed, note)
    for i, s in enumerate(exhaustive_schedules()):
        if i % parts == part:
            judge(stats, report, s)
    return stats


@st.composite
def schedules(draw):
    n = draw(st.integers(1, 3))
    order = tuple(draw(st.permutations(range(n))))
    total = 25 * (n + 1)
    cuts = tuple(sorted(set(draw(st.lists(st.integers(1, total), max_size=4)))))
    s = dict(n=n, order=order, cuts=cuts)
    mode = draw(st.sampled_from(['none', 'loss', 'loss', 'close', 'early', 'instant']))
    if mode == 'instant':
        return dict(n=n, order=tuple(range(n)), cuts=(), instant=True)
    if mode == 'loss':
        s['loss'] = (draw(st.sampled_from(['eof', 'reset'])), draw(st.integers(0, n)), draw(st.one_of(st.integers(0, 24), st.just('end'))))
        s['after_call'] = draw(st.booleans())
    elif mode == 'close':
        s['close'] = draw(st.integers(0, n))
        s['cuts'] = ()
        s['after_call'] = draw(st.booleans())
    elif mode == 'early':
        s['early_loss'] = draw(st.sampled_from(['eof', 'reset']))
        s['after_call'] = True
    if mode in ('none', 'loss'):
        s['extra'] = draw(st.sampled_from([None, None, 'foreign', 'duplicate']))
    return s


def shard_gen(seed_value, n):
    stats = core.Stats()
    f = core.Findings("C14")

    def make_test(report):
        @given(schedules())
        def t(s):
            judge(stats, report, s)
        return t
    core.hyp_collect(stats, make_test, seed_value, n, rounds=6, shrink=False, is_known=lambda k: f.match(k) is not None)
    return stats


def shard(kind, a, b):
    import os
    import sys
    sys.stderr = open(os.devnull, 'w')
    return shard_exh(a, b) if kind == 'exh' else shard_gen(a, b)


def check(run):
    quick = run.tier == 'quick'
    jobs = [('exh', i, 10) for i in range(10)]
    jobs += [('gen', run.seed * 1000 + i, 600 if quick else 20000) for i in range(6)]
    run.absorb(core.pool_map('vk.c14_calls', 'shard', jobs))
    run.min_class_fraction = {'out of order': 0.2, 'call after loss': 0.05}


def replay(case):
    out = []
    stats = core.Stats()

    def report(fkey, case_, expected=None, observed=None, note=None):
        out.append((fkey, expected, observed))
    s = dict(case['schedule'])
    s['order'] = tuple(s['order'])
    s['cuts'] = tuple(s.get('cuts', ()))
    if s.get('loss'):
        s['loss'] = tuple(s['loss'])
    judge(stats, report, s)
    return out
