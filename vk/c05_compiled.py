"""C05 - compiled and interpreted execution of an expression are indistinguishable.

Generator: expression trees of the compilable grammar x evaluation position x binding
histories (incl. rebinding to other kinds) x backend.  Oracle: twin interpreter running the
identical history with the expression compiler switched off (compile_expr dispatcher
returning None).  See DESIGN.md section 3, C05.
"""
import itertools

from hypothesis import given, strategies as st

from . import core
from .canon import to_canon, ceq, category, render, show, shape_class, I, R, L, LL, S, C, D, Y

LEVEL = "exploration"
RULE = ("expression tree (depth<=3) of the compilable grammar {+ - * % ^ = < > neg, +/ */ |/ &/, "
        "+\\ *\\ |\\ &\\} over variables a b c and numeric literals, placed at top level / niladic "
        "function body / lambda parameters / operand of a non-compilable verb, evaluated for 1-3 rounds "
        "of (rebind variables; evaluate the same text) in a compiling interpreter and in a twin with "
        "the compiler off; non-trivial = the compiler accepted the expression in the compiling "
        "interpreter AND some binding is not an integer scalar; distinct by (backend, text, position, "
        "binding history)")
ASSUMPTIONS = [
    "twin = same KlongInterpreter class with klongpy.interpreter.compile_expr returning None",
    "reals compared rel 1e-12 (numpy) / 1e-5 (torch); integer/real kind compared exactly",
    "an exception on one side and a value/:undefined on the other is a violation; exception types are not compared",
]

# ----------------------------------------------------------------------------- twin machinery

_installed = {}


def install_dispatcher():
    """Replace klongpy.interpreter.compile_expr by a dispatcher (monkeypatch, no source change)."""
    import klongpy.interpreter as ki
    if _installed.get("orig") is not None and ki.compile_expr is _installed.get("disp"):
        return _installed
    orig = ki.compile_expr
    state = {"accepted": 0, "calls": 0}

    def dispatcher(ast, klong):
        if getattr(klong, "_vk_nocompile", False):
            return None
        state["calls"] += 1
        r = orig(ast, klong)
        if r:
            state["accepted"] += 1
        return r

    ki.compile_expr = dispatcher
    _installed.update(orig=orig, disp=dispatcher, state=state)
    return _installed


def mk(backend, compiled):
    from klongpy import KlongInterpreter
    k = KlongInterpreter(backend=backend, device='cpu') if backend == 'torch' else KlongInterpreter()
    k._vk_nocompile = not compiled
    return k


# ----------------------------------------------------------------------------- expression grammar

BIN = ['+', '-', '*', '%', '^']
CMP = ['=', '<', '>']
RED = ['+', '*', '|', '&']


def expr_strategy(vars_):
    leaf = st.one_of(
        st.sampled_from([('v', v) for v in vars_]),
        st.sampled_from([('v', v) for v in vars_]),
        st.sampled_from([('n', 0), ('n', 1), ('n', 2), ('n', 3), ('n', 10), ('n', 0.5), ('n', 2.0), ('n', 1.5)]),
    )

    def ext(ch):
        return st.one_of(
            st.tuples(st.just('b'), st.sampled_from(BIN), ch, ch),
            st.tuples(st.just('c'), st.sampled_from(CMP), ch, ch),
            st.tuples(st.just('neg'), ch),
            st.tuples(st.just('red'), st.sampled_from(RED), ch),
            st.tuples(st.just('scan'), st.sampled_from(RED), ch),
        )
    return st.recursive(leaf, ext, max_leaves=5).filter(lambda e: e[0] != 'n' and _depth(e) <= 3 and _has_var(e))


def _depth(e):
    if e[0] in 'vn':
        return 0
    return 1 + max(_depth(x) for x in e[1:] if isinstance(x, tuple))


def _has_var(e):
    if e[0] == 'v':
        return True
    if e[0] == 'n':
        return False
    return any(_has_var(x) for x in e[1:] if isinstance(x, tuple))


def text(e, ren=None):
    t = e[0]
    if t == 'v':
        return (ren or {}).get(e[1], e[1])
    if t == 'n':
        return repr(e[1])
    if t == 'b' or t == 'c':
        l, r = text(e[2], ren), text(e[3], ren)
        if e[2][0] not in 'vn':
            l = '(' + l + ')'
        # right operand needs no parentheses (right-to-left evaluation) unless it starts with '-'
        if e[3][0] == 'neg':
            r = '(' + r + ')'
        return l + e[1] + r
    if t == 'neg':
        return '-' + (text(e[1], ren) if e[1][0] in 'vn' else '(' + text(e[1], ren) + ')')
    if t == 'red':
        return e[1] + '/' + (text(e[2], ren) if e[2][0] in 'vn' else '(' + text(e[2], ren) + ')')
    if t == 'scan':
        return e[1] + '\\' + (text(e[2], ren) if e[2][0] in 'vn' else '(' + text(e[2], ren) + ')')
    raise ValueError(e)


def ops_of(e, acc=None):
    acc = set() if acc is None else acc
    if e[0] in ('b', 'c'):
        acc.add(e[1])
    elif e[0] == 'neg':
        acc.add('neg')
    elif e[0] == 'red':
        acc.add(e[1] + '/')
    elif e[0] == 'scan':
        acc.add(e[1] + '\\')
    for x in e[1:]:
        if isinstance(x, tuple):
            ops_of(x, acc)
    return acc


def subexprs(e):
    yield e
    for x in e[1:]:
        if isinstance(x, tuple) and x and x[0] in ('b', 'c', 'neg', 'red', 'scan', 'v', 'n'):
            yield from subexprs(x)


def vars_of(e):
    return sorted({x[1] for x in subexprs(e) if x[0] == 'v'})


# ----------------------------------------------------------------------------- bindings

NUM_BINDINGS = [
    I(0), I(1), I(-1), I(2), I(3), I(-7), I(1000),
    R(0.5), R(-2.5), R(2.0), R(123.75), R(0.0),
    L(), L(I(4)), L(I(1), I(2), I(3)), L(I(0), I(-1), I(5)), L(I(3), I(1), I(2), I(2)),
    L(R(0.5), R(1.5), R(2.0)), L(R(2.0)), L(R(-1.5), R(0.0), R(4.0)),
    L(I(1), R(2.5), I(3)),
    L(L(I(1), I(2)), L(I(3), I(4))), L(L(I(1), I(2), I(3)), L(I(4), I(5), I(6))),
    L(L(R(0.5), R(1.5)), L(R(2.5), R(3.5))), L(L(I(1)), L(I(2)), L(I(3))),
    L(L(L(I(1), I(2)), L(I(3), I(4))), L(L(I(5), I(6)), L(I(7), I(8)))),
    L(I(1), L(I(2), I(3))), L(L(I(1)), L(I(2), I(3))), L(L(), L(I(1))),
]
OTHER_BINDINGS = [S("abc"), S(""), C("a"), Y("foo"), D([(I(1), I(2))]), L(S("ab"), S("cd"))]
TORCH_OK = lambda c: shape_class(c) in ('int', 'real', 'empty', 'ivec', 'rvec', 'nvec', 'matrix', 'rank3')

POSITIONS = ['top', 'fnbody', 'lambda', 'operand-join', 'operand-count', 'nested-call']


def program(e, position):
    """Return (setup statements, evaluated text, lambda?)"""
    if position == 'top':
        return [], text(e)
    if position == 'fnbody':
        return ['f::{' + text(e) + '}'], 'f()'
    if position == 'operand-join':
        return [], '(,1),' + text(e)
    if position == 'operand-count':
        return [], '#' + '(' + text(e) + ')'
    if position == 'nested-call':
        return ['f::{(,1),' + text(e) + '}', 'g::{f()}'], 'g()'
    if position == 'lambda':
        vs = vars_of(e)
        ren = {v: p for v, p in zip(vs, 'xyz')}
        body = text(e, ren)
        # make sure klongpy infers the right arity even when x only occurs under a monad
        return ['f::{' + ';'.join(ren[v] for v in vs) + ';' + body + '}'], 'f(' + ';'.join(vs) + ')'
    raise ValueError(position)


def run_history(backend, compiled, e, position, rounds):
    """rounds: list of dict var->canonical binding. Returns list of outcomes, accepted flag."""
    inst = install_dispatcher()
    k = mk(backend, compiled)
    setup, txt = program(e, position)
    outs = []
    acc0 = inst["state"]["accepted"]
    for i, binds in enumerate(rounds):
        for v, c in binds.items():
            try:
                k(v + '::' + render(c))
            except Exception as ex:  # binding itself not accepted by this backend
                outs.append(('bind-error', type(ex).__name__))
                return outs, False
        if i == 0:
            for s in setup:
                k(s)
        try:
            r = k(txt)
            outs.append(('val', to_canon(r)))
        except RecursionError:
            outs.append(('err', 'RecursionError'))
        except Exception as ex:
            outs.append(('err', type(ex).__name__))
    return outs, inst["state"]["accepted"] > acc0


def outcomes_agree(a, b, rtol, atol):
    if a[0] != b[0]:
        return False
    if a[0] == 'val':
        return ceq(a[1], b[1], rtol=rtol, atol=atol)
    return True   # both errors (types not compared) / both bind-error


def tol(backend):
    return (1e-12, 1e-12) if backend == 'numpy' else (1e-5, 1e-6)


def minimal_sub(backend, e, binds):
    """Smallest sub-expression that still disagrees at top level with these bindings."""
    rtol, atol = tol(backend)
    best = None
    for s in subexprs(e):
        if s[0] in 'vn':
            continue
        vs = vars_of(s)
        binds = dict(binds)
        if not vs:
            # a constant sub-expression is never compiled on its own; give it a dummy variable q
            s, lit = _lift_literal(s)
            if lit is None:
                continue
            binds['q'] = I(lit) if isinstance(lit, int) else R(lit)
            vs = ['q']
        b = {v: binds[v] for v in vs if v in binds}
        if len(b) != len(vs):
            continue
        o1, _ = run_history(backend, True, s, 'top', [b])
        o2, _ = run_history(backend, False, s, 'top', [b])
        if not outcomes_agree(o1[0], o2[0], rtol, atol):
            if best is None or len(repr(s)) < len(repr(best[0])):
                best = (s, o1[0], o2[0], b)
    return best


def _lift_literal(s):
    """Replace the first literal leaf of s by the variable q; return (new tree, literal)."""
    found = [None]

    def go(x):
        if found[0] is None and x[0] == 'n':
            found[0] = x[1]
            return ('v', 'q')
        if x[0] in 'vn':
            return x
        return tuple(go(y) if isinstance(y, tuple) else y for y in x)
    t = go(s)
    return t, found[0]


def opname(e):
    if e[0] in ('b', 'c'):
        return e[1]
    if e[0] == 'neg':
        return 'neg'
    if e[0] == 'red':
        return e[1] + '/'
    if e[0] == 'scan':
        return e[1] + '\\'
    return e[0]


def outcome_cat(oc, oi):
    if oc[0] == 'val' and oi[0] == 'val':
        return category(oi[1], oc[1])
    return f"{oc[0]}-vs-{oi[0]}"


def operand_trait(c):
    sc = shape_class(c)
    return {'int': 'atom', 'real': 'atom', 'ivec': 'vec', 'rvec': 'vec', 'nvec': 'vec', 'matrix': 'rank2+',
            'rank3': 'rank2+', 'nested': 'object', 'ragged': 'object'}.get(sc, sc)


def _has(c, pred):
    if c[0] == 'l':
        return any(_has(x, pred) for x in c[1])
    return c[0] in 'ir' and pred(c[1])


def eval_operand(backend, x, binds):
    """Canonical value of an operand sub-expression (interpreted, fresh interpreter)."""
    if x[0] == 'v':
        return binds[x[1]]
    if x[0] == 'n':
        return I(x[1]) if isinstance(x[1], int) else R(x[1])
    vs = vars_of(x)
    o, _ = run_history(backend, False, x, 'top', [{v: binds[v] for v in vs}])
    return o[0][1] if o[0][0] == 'val' else ('x', 'err')


def finding_key(backend, e, position, rounds, idx, oc, oi):
    """Key from the oracle's view of the case: the minimal disagreeing sub-expression at the first
    disagreeing round - its operator, a trait of each (interpreted) operand value and the mismatch
    category; or, when every sub-expression agrees in isolation, the context (position, kinds
    before/after rebinding)."""
    binds = {}
    for r in rounds[:idx + 1]:
        binds.update(r)
    prev = {}
    for r in rounds[:idx]:
        prev.update(r)
    ms = minimal_sub(backend, e, binds)
    if ms is not None:
        s, c1, c2, mb = ms
        binds = dict(binds, **mb)
        vals = [eval_operand(backend, x, binds) for x in s[1:] if isinstance(x, tuple)]
        traits = [operand_trait(v) for v in vals]
        op = opname(s)
        if op == '%' and len(vals) == 2 and _has(vals[1], lambda n: n == 0):
            traits = ['zero-divisor']
        if op == '^' and len(vals) == 2 and _has(vals[1], lambda n: n < 0) and 'object' not in traits:
            traits = ['neg-exponent']
        return f"{backend}/{op}/{','.join(traits)}/{outcome_cat(c1, c2)}"
    changed = sorted({f"{operand_trait(prev[v])}>{operand_trait(binds[v])}" for v in binds if v in prev
                      and operand_trait(prev[v]) != operand_trait(binds[v])})
    pos = 'node-memo' if position in ('operand-join', 'operand-count', 'nested-call') else position
    return f"{backend}/context/{pos}/rebind={'+'.join(changed) or 'none'}/{outcome_cat(oc, oi)}"


def _maxabs(c):
    if c[0] in 'ir':
        return abs(c[1])
    if c[0] == 'l':
        return max((_maxabs(x) for x in c[1]), default=0)
    return 0


def _count(c):
    if c[0] == 'l':
        return max(1, sum(_count(x) for x in c[1]))
    return 1


def bits_bound(e, binds):
    """Upper bound (bits, element count) of |value| of e - used only to keep Python big-integer
    powers (compiled code uses ** on Python ints) from exhausting memory; cases above the bound
    are rejected, not judged."""
    import math
    t = e[0]
    if t == 'v':
        c = binds.get(e[1])
        if c is None:
            return 1, 1
        m = _maxabs(c)
        return (math.log2(m) + 1 if m >= 1 else 1), _count(c)
    if t == 'n':
        return (math.log2(abs(e[1])) + 1 if abs(e[1]) >= 1 else 1), 1
    if t in ('b', 'c'):
        (b1, n1), (b2, n2) = bits_bound(e[2], binds), bits_bound(e[3], binds)
        n = max(n1, n2)
        if t == 'c':
            return 1, n
        op = e[1]
        if op in '+-':
            return max(b1, b2) + 1, n
        if op == '*':
            return b1 + b2, n
        if op == '%':
            return b1 + 4, n      # smallest non-zero |divisor| in the universe is 0.5
        if op == '^':
            if b2 > 14:
                return float('inf'), n
            return b1 * (2 ** b2), n
    if t == 'neg':
        return bits_bound(e[1], binds)
    if t in ('red', 'scan'):
        b, n = bits_bound(e[2], binds)
        if e[1] == '*':
            return b * n, n
        if e[1] == '+':
            return b + math.log2(n) + 1, n
        return b, n
    return 1, 1


def too_big(e, rounds, limit):
    """Any sub-expression whose magnitude bound exceeds `limit` bits: the case lies outside the range
    where the number representations (int64 / float64 / float32) are exact enough to compare."""
    binds = {}
    for r in rounds:
        binds.update(r)
        for s in subexprs(e):
            if s[0] in 'vn':
                continue
            try:
                if bits_bound(s, binds)[0] > limit:
                    return True
            except OverflowError:
                return True
    return False


INT_MIN = -2 ** 63


def garbage(o):
    """Outcome holds inf / nan / INT64_MIN (overflow or pole residue, not a Klong number)."""
    import math
    return o[0] == 'val' and _has(o[1], lambda n: abs(n) >= 2 ** 62 or (isinstance(n, float) and not math.isfinite(n)))


def judge(stats, report, backend, e, position, rounds):
    rtol, atol = tol(backend)
    if too_big(e, rounds, 50 if backend == 'numpy' else 22):
        stats.reject('magnitude bound above 50 bits (numpy) / 22 bits (torch float32): overflow range')
        return
    oc, accepted = run_history(backend, True, e, position, rounds)
    oi, _ = run_history(backend, False, e, position, rounds)
    all_int = all(c[0] == 'i' for r in rounds for c in r.values())
    rebind = len(rounds) > 1
    case = {"backend": backend, "expr": text(e), "tree": e, "position": position,
            "rounds": [{v: show(c) for v, c in r.items()} for r in rounds],
            "rounds_c": [{v: c for v, c in r.items()} for r in rounds]}
    key = (backend, text(e), position, tuple(tuple(sorted(r.items())) for r in rounds))
    cls = ['pos:' + position, 'backend:' + backend, 'rounds:%d' % len(rounds)]
    if accepted:
        cls.append('accepted')
    if rebind and any(shape_class(c) in ('str', 'str0', 'char', 'sym', 'dict', 'svec') for r in rounds[1:] for c in r.values()):
        cls.append('rebind-to-nonnumeric')
    for o in ops_of(e):
        cls.append('op:' + o)
    if any(o[0] == 'bind-error' for o in oc + oi):
        stats.reject('binding not accepted by backend')
        return
    stats.case(key, nontrivial=accepted and not all_int, classes=cls,
               sample={"backend": backend, "position": position, "text": program(e, position),
                       "rounds": case["rounds"], "compiled": [short_o(o) for o in oc],
                       "interpreted": [short_o(o) for o in oi]})
    for idx, (a, b) in enumerate(zip(oc, oi)):
        if not outcomes_agree(a, b, rtol, atol):
            if (garbage(a) or garbage(b)) and (garbage(a) or a[0] == 'err') and (garbage(b) or b[0] == 'err'):
                stats.reject('pole or overflow: each side holds inf/nan/INT_MIN or raises')
                return
            fkey = finding_key(backend, e, position, rounds, idx, a, b)
            report(fkey, case, expected=short_o(b), observed=short_o(a), note=f"round {idx}")
            return


def short_o(o):
    return (o[0] + ':' + show(o[1])) if o[0] == 'val' else o[0] + ':' + str(o[1])


# ----------------------------------------------------------------------------- strategies

def binding_for(backend, allow_other):
    pool = [c for c in NUM_BINDINGS if backend == 'numpy' or TORCH_OK(c)]
    if allow_other and backend == 'numpy':
        return st.one_of(st.sampled_from(pool), st.sampled_from(pool), st.sampled_from(OTHER_BINDINGS))
    return st.sampled_from(pool)


@st.composite
def case_strategy(draw, backend):
    e = draw(expr_strategy(['a', 'b', 'c']))
    vs = vars_of(e)
    position = draw(st.sampled_from(POSITIONS))
    nrounds = draw(st.sampled_from([1, 1, 2, 2, 3]))
    rounds = []
    for i in range(nrounds):
        if i == 0:
            rounds.append({v: draw(binding_for(backend, False)) for v in vs})
        else:
            sub = draw(st.lists(st.sampled_from(vs), min_size=1, max_size=len(vs), unique=True))
            rounds.append({v: draw(binding_for(backend, True)) for v in sorted(sub)})
    return e, position, rounds


def shard(backend, seed_value, n, known_keys):
    stats = core.Stats()
    known = set(known_keys)

    def make_test(report):
        @given(case_strategy(backend))
        def t(c):
            e, position, rounds = c
            judge(stats, report, backend, e, position, rounds)
        return t

    f = core.Findings("C05")
    core.hyp_collect(stats, make_test, seed_value, n, rounds=12, shrink=True,
                     is_known=lambda k: f.match(k) is not None)
    return stats


def exhaustive_shard(backend, idx, nshards):
    """Depth-1 expressions x all single-variable / two-variable bindings x all positions."""
    stats = core.Stats()
    fails = []

    def report(fkey, case, expected=None, observed=None, note=None):
        stats.fail(fkey, case, expected, observed, note)

    pool = [c for c in NUM_BINDINGS if backend == 'numpy' or TORCH_OK(c)]
    exprs = []
    for op in BIN:
        exprs.append(('b', op, ('v', 'a'), ('v', 'b')))
        exprs.append(('b', op, ('v', 'a'), ('n', 2)))
        exprs.append(('b', op, ('n', 2), ('v', 'a')))
        exprs.append(('b', op, ('v', 'a'), ('n', 0.5)))
    for op in CMP:
        exprs.append(('c', op, ('v', 'a'), ('v', 'b')))
        exprs.append(('c', op, ('v', 'a'), ('n', 1)))
    exprs.append(('neg', ('v', 'a')))
    for op in RED:
        exprs.append(('red', op, ('v', 'a')))
        exprs.append(('scan', op, ('v', 'a')))
    n = 0
    for e in exprs:
        vs = vars_of(e)
        for combo in itertools.product(pool, repeat=len(vs)):
            for position in ('top', 'fnbody', 'lambda', 'operand-join'):
                n += 1
                if n % nshards != idx:
                    continue
                judge(stats, report, backend, e, position, [dict(zip(vs, combo))])
    return stats


def rebind_shard(idx, nshards):
    """Depth-1 expressions over one variable x (first binding numeric) x (second binding of another
    kind/shape) x every position: the history class in which per-node memoised code goes stale."""
    stats = core.Stats()

    def report(fkey, case, expected=None, observed=None, note=None):
        stats.fail(fkey, case, expected, observed, note)

    exprs = []
    for op in BIN + CMP:
        k = 'b' if op in BIN else 'c'
        exprs += [(k, op, ('v', 'a'), ('n', 2)), (k, op, ('n', 2), ('v', 'a')), (k, op, ('v', 'a'), ('v', 'a'))]
    exprs.append(('neg', ('v', 'a')))
    for op in RED:
        exprs += [('red', op, ('v', 'a')), ('scan', op, ('v', 'a'))]
    firsts = [I(3), R(0.5), L(I(1), I(2), I(3)), L(L(I(1), I(2)), L(I(3), I(4)))]
    seconds = OTHER_BINDINGS + [I(2), R(1.5), L(I(4)), L(), L(R(0.5), R(1.5), R(2.0)), L(I(1), L(I(2), I(3)))]
    n = 0
    for e in exprs:
        for f1 in firsts:
            for f2 in seconds:
                for position in POSITIONS:
                    n += 1
                    if n % nshards != idx:
                        continue
                    judge(stats, report, 'numpy', e, position, [{'a': f1}, {'a': f2}])
    return stats


def check(run):
    install_dispatcher()
    quick = run.tier == 'quick'
    per = 700 if quick else 12000
    f = run.findings
    jobs = []
    for backend in ('numpy', 'torch'):
        for s in range(6 if backend == 'numpy' else 2):
            jobs.append((backend, run.seed * 1000 + s, per, ()))
    st1 = core.pool_map('vk.c05_compiled', 'shard', jobs)
    run.absorb(st1)
    ej = [(b, i, 8) for b in ('numpy', 'torch') for i in range(8)]
    if quick:
        ej = [(b, i, 8) for b in ('numpy',) for i in range(8)] + [('torch', i, 8) for i in range(0, 8, 2)]
    st2 = core.pool_map('vk.c05_compiled', 'exhaustive_shard', ej)
    run.absorb(st2)
    run.absorb(core.pool_map('vk.c05_compiled', 'rebind_shard', [(i, 8) for i in range(8)]))
    run.min_class_fraction = {'accepted': 0.3}
    run.coverage_extra['compiler_accepted_cases'] = run.stats.classes.get('accepted', 0)


def replay(case):
    from .canon import from_json
    install_dispatcher()
    e = from_json(case["tree"])
    rounds = [{v: from_json(c) for v, c in r.items()} for r in case["rounds_c"]]
    st_ = core.Stats()
    out = []

    def report(fkey, case_, expected=None, observed=None, note=None):
        out.append((fkey, expected, observed))
    judge(st_, report, case["backend"], e, case["position"], rounds)
    return out
