"""C09 - the interpreter is a faithful dictionary of Python values and functions.

(a) data values stored with klong[name]=v, read back with klong[name] and seen by programs;
(b) Python callables of every documented signature shape (and permutations), as lambdas, defs and
    bound methods, applied through every call form: the recorded call log must hold exactly one
    entry per application with exactly the evaluated arguments in positional order;
(c) Klong functions called through the Python wrapper under histories of redefinition, deletion
    and re-creation: equal to the Klong call name(a;b;c) against the current definition.
DESIGN.md 3/C09.
"""
import itertools

import numpy as np
from hypothesis import given, strategies as st

from . import core
from .canon import to_canon, ceq, render, show, from_json, I, R, S, L, C, Y, D

LEVEL = "exploration"
RULE = ("(a) values of every kind incl. numpy arrays of each dtype stored / read / seen; (b) exhaustive: signature shape "
        "((), (x), (x,y), (x,y,z), permutations, optional leading klong) x callable kind (lambda, def, bound method, functools.wraps-decorated def, .py "
        "import with arbitrary parameter names) x call form (direct, alias, projection, each, each-2, over, @) x argument "
        "tuples; (c) Hypothesis histories of define / redefine (same or other arity) / delete / re-create / capture wrapper / "
        "call with right and wrong argument counts; non-trivial = arity>=2 or a klong parameter or a non-direct call form "
        "or a redefinition in the history; distinct by case")
ASSUMPTIONS = [
    "parameter sets that are not a prefix of x,y,z (e.g. (y) alone, (x,z)) are outside the documented convention and not generated",
    "after deletion of the name the wrapper falls back to the definition it captured (documented in KGFnWrapper)",
    "Python list arguments are compared with the Klong list literal of the same elements",
    "Klong lists are numpy arrays: stored data and callable results are arrays, never bare Python lists/tuples (klongpy treats a Python list as a program)",
]

# ----------------------------------------------------------------------------- (a) data values

DATA = [I(0), I(-7), I(2 ** 40), R(2.5), R(-0.0), S(''), S('text "q"'), C('c'), Y('sym'), L(), L(I(1), I(2)), L(R(0.5), R(1.5)),
        L(I(1), L(I(2), S('x'))), L(S('ab'), S('cd')), D([(I(1), I(2)), (S('k'), L(I(3)))])]
NPVALS = [np.array([1, 2, 3]), np.array([1.5, 2.5]), np.array([[1, 2], [3, 4]]), np.array([], dtype=float), np.array([True, False]),
          np.int64(5), np.float64(2.5), np.array([1, 2], dtype=np.int32), np.array([1.5], dtype=np.float32), True]


def data_shard(idx, nshards):
    from klongpy import KlongInterpreter
    from .c11_readwrite import to_py
    stats = core.Stats()
    vals = [(show(c), to_py(c), c) for c in DATA] + [(repr(v), v, to_canon(v)) for v in NPVALS]
    for n, (label, v, c) in enumerate(vals):
        if n % nshards != idx:
            continue
        k = KlongInterpreter()
        k['v'] = v
        back = to_canon(k['v'])
        seen = to_canon(k('v'))
        joined = to_canon(k('v,v')) if c[0] == 'l' else None
        stats.case(('data', label), nontrivial=c[0] in 'ld', classes=['part:data'], sample={"stored": label, "read": show(back)})
        ok = ceq(back, c, match=True) and ceq(seen, c, match=True)
        if joined is not None and not ceq(joined, ('l', c[1] + c[1]), match=True):
            ok = False
        if not ok:
            stats.fail(f"data/{c[0]}", {"part": "data", "value": label}, show(c), f'read {show(back)}, seen {show(seen)}')
    return stats


# ----------------------------------------------------------------------------- (b) Python callables

SIGS = [(), ('x',), ('x', 'y'), ('x', 'y', 'z'), ('y', 'x'), ('z', 'y', 'x'), ('y', 'z', 'x'), ('x', 'z', 'y')]
KINDS = ['lambda', 'def', 'method', 'decorated', 'pyimport']
FORMS = ['direct', 'alias', 'projection', 'each', 'each2', 'over', 'at']
ARGSETS = [(3, 4, 5), (0, -2, 7), ((1, 2), 9, (3, 4))]


def lit(v):
    return I(v) if isinstance(v, int) else L(*[I(i) for i in v])


def make_callable(kind, sig, with_klong, log):
    """Python callable with the given parameter names; logs its positional arguments, returns them as a list."""
    params = (['klong'] if with_klong else []) + list(sig)
    names = ', '.join(params)

    def record(*a):
        vals = a[1:] if with_klong else a
        log.append(tuple(to_canon(v) for v in vals))
        return _arr([1000] + [v for v in vals]) if vals else 42
    ns = {'record': record}
    if kind == 'lambda':
        return eval(f'lambda {names}: record({names})', ns)
    if kind == 'def':
        exec(f'def fn({names}):\n    return record({names})', ns)
        return ns['fn']
    if kind == 'decorated':
        # an ordinary functools.wraps decorator: inspect.signature still reports the wrapped function's parameters
        import functools
        exec(f'def fn({names}):\n    return record({names})', ns)
        inner = ns['fn']

        @functools.wraps(inner)
        def wrapper(*args, **kwargs):
            return inner(*args, **kwargs)
        return wrapper
    if kind == 'method':
        exec(f'class H:\n    def m(self{", " if names else ""}{names}):\n        return record({names})', ns)
        return ns['H']().m
    raise ValueError(kind)


def _arr(items):
    """Klong lists are numpy arrays (a Python list is a program to klongpy): build the result as klongpy would."""
    from klongpy.backends import get_backend
    return get_backend('numpy').kg_asarray([x.tolist() if isinstance(x, np.ndarray) else x for x in items])


def expected_value(vals):
    return ('l', (I(1000),) + tuple(lit(v) for v in vals)) if vals else I(42)


def plan(form, arity, args):
    """Return (setup texts, call text, expected log (list of arg tuples), expected value or None)."""
    A = [render(lit(a)) for a in args[:arity]]
    a = args[:arity]
    if form == 'direct':
        return [], 'fn(' + ';'.join(A) + ')', [tuple(a)], expected_value(a)
    if form == 'alias':
        return ['g::fn'], 'g(' + ';'.join(A) + ')', [tuple(a)], expected_value(a)
    if form == 'projection':
        if arity < 2:
            return None
        return ['p::fn(' + A[0] + ';' + ';'.join([''] * (arity - 1)) + ')'], 'p(' + ';'.join(A[1:]) + ')', [tuple(a)], expected_value(a)
    if form == 'each':
        if arity != 1:
            return None
        items = [3, 4, 5]
        return [], "fn'[3 4 5]", [(i,) for i in items], None
    if form == 'each2':
        if arity != 2:
            return None
        return [], "[1 2]fn'[8 9]", [(1, 8), (2, 9)], None
    if form == 'over':
        if arity != 2:
            return None
        return [], 'fn/[1 2 3]', 'over', None
    if form == 'at':
        if arity == 1:
            return [], 'fn@7', [(7,)], expected_value((7,))
        if arity in (2, 3):
            vals = (3, 4, 5)[:arity]
            return [], 'fn@[' + ' '.join(map(str, vals)) + ']', [vals], expected_value(vals)
        return None
    raise ValueError(form)


def judge_callable(stats, report, kind, sig, with_klong, form, args, prebound=None):
    from klongpy import KlongInterpreter
    arity = len(sig)
    pl = plan(form, arity, args)
    if pl is None:
        stats.reject('call form not applicable to this arity')
        return
    setup, call, want_log, want_val = pl
    k = KlongInterpreter()
    log = []
    if kind == 'pyimport':
        # .py import remaps arbitrary parameter names to x,y,z
        import os, sys, tempfile, textwrap
        d = tempfile.mkdtemp(prefix='vk_c09_')
        modname = 'vk_c09_mod_%d' % (abs(hash((sig, with_klong, form))) % 10 ** 8)
        names = ['alpha', 'beta', 'gamma'][:arity]
        params = (['klong'] if with_klong else []) + names
        src = f"LOG = []\ndef fn({', '.join(params)}):\n    LOG.append(({''.join(n + ', ' for n in names)}))\n    return __import__('numpy').array([1000{''.join(', ' + n for n in names)}], dtype=object) if {bool(names)} else 42\n"
        try:
            with open(os.path.join(d, modname + '.py'), 'w') as fh:
                fh.write(src)
            k['modpath'] = os.path.join(d, modname + '.py')
            k('.py(modpath)')
            mod = sys.modules.get(modname)
        finally:
            import shutil
            shutil.rmtree(d, ignore_errors=True)
        pylog = None
    else:
        # the name may already hold something: storing a callable under an existing name must behave like a fresh one
        if prebound == 'data':
            k('fn::5')
        elif prebound == 'klong-fn':
            k('fn::{x}')
        elif prebound == 'callable':
            k['fn'] = lambda x: 99
        k['fn'] = make_callable(kind, sig, with_klong, log)
    for s_ in setup:
        k(s_)
    try:
        r = ('val', to_canon(k(call)))
    except Exception as e:
        r = ('err', f'{type(e).__name__}: {e}'[:100])
    if kind == 'pyimport':
        # find the module's LOG through the imported function's globals
        fnv = k._context[__import__('klongpy').core.KGSym('fn')]
        lam = fnv if hasattr(fnv, 'fn') else getattr(fnv, 'a', None)
        g = getattr(getattr(lam, 'fn', None), '__globals__', {})
        log = [tuple(to_canon(v) for v in e) for e in g.get('LOG', [])]
    if want_log == 'over':
        first = (I(1), I(2))
        want = [first, (expected_value((1, 2)), I(3))]
    else:
        want = [tuple(lit(v) for v in e) for e in want_log]
    nontriv = arity >= 2 or with_klong or form != 'direct'
    stats.case(('callable', kind, sig, with_klong, form, args[:arity], prebound), nontrivial=nontriv,
               classes=['part:callable', 'kind:' + kind, 'form:' + form, 'arity:%d' % arity] + (['klong-param'] if with_klong else []) +
               (['name held ' + prebound] if prebound else []),
               sample={"signature": ('klong, ' if with_klong else '') + ', '.join(sig), "kind": kind, "setup": setup, "call": call,
                       "log": [[show(v) for v in e] for e in log]})
    case = {"part": "callable", "kind": kind, "sig": list(sig), "with_klong": with_klong, "form": form, "args": args, "prebound": prebound}
    perm = 'canonical' if list(sig) == ['x', 'y', 'z'][:arity] else 'permuted'
    key = f"callable/{kind}/{perm}/arity{arity}/{form}" + (f"/name-held-{prebound}" if prebound else '')
    if r[0] == 'err':
        report(key + '/raised', case, expected=f'log {want}', observed=r[1])
    elif len(log) != len(want) or any(len(a) != len(b) or not all(ceq(x, y, match=True) for x, y in zip(a, b)) for a, b in zip(log, want)):
        report(key + '/log', case, expected=[[show(v) for v in e] for e in want], observed=[[show(v) for v in e] for e in log])
    elif want_val is not None and not ceq(r[1], want_val, match=True):
        report(key + '/value', case, expected=show(want_val), observed=show(r[1]))


def callable_cases():
    for kind in KINDS:
        for sig in SIGS:
            if kind == 'pyimport' and list(sig) != ['x', 'y', 'z'][:len(sig)]:
                continue        # imported functions have arbitrary names; permutation is meaningless
            for with_klong in (False, True):
                for form in FORMS:
                    for args in ARGSETS:
                        yield kind, sig, with_klong, form, args, None
                if kind != 'pyimport':
                    for prebound in ('data', 'klong-fn', 'callable'):
                        for form in ('direct', 'each') if 'each' in FORMS else ('direct',):
                            yield kind, sig, with_klong, form, ARGSETS[0], prebound


def callable_shard(idx, nshards):
    stats = core.Stats()

    def report(fkey, case, expected=None, observed=None, note=None):
        stats.fail(fkey, case, expected, observed, note)
    for n, c in enumerate(callable_cases()):
        if n % nshards == idx:
            judge_callable(stats, report, *c)
    return stats


# ----------------------------------------------------------------------------- (c) wrapper histories

BODIES = {0: ['{42}', '{7}'], 1: ['{x*2}', '{-x}', '{x,x}', '{#x}'], 2: ['{x+y}', '{x,y}', '{(2*x)-y}', '{(-x)+y}'],
          3: ['{x,y,z}', '{(x*y)+z}', '{(-x),y,z}']}
PYARGS = [3, -2, 2.5, [1, 2, 3], np.array([4, 5]), 'str', [1.5, 2.5]]


def pyarg_lit(a):
    if isinstance(a, np.ndarray):
        return render(to_canon(a))
    if isinstance(a, list):
        return render(to_canon(np.asarray(a)))
    if isinstance(a, str):
        return render(S(a))
    return render(to_canon(a))


@st.composite
def histories(draw):
    ops = []
    for _ in range(draw(st.integers(2, 9))):
        kind = draw(st.sampled_from(['def', 'def', 'capture', 'call', 'call', 'call_wrong', 'del', 'cycle']))
        if kind == 'cycle':
            # delete - call while deleted - re-create - call again (the wrapper must follow the new definition)
            idx = tuple(draw(st.integers(0, len(PYARGS) - 1)) for _ in range(3))
            ar = draw(st.integers(0, 3))
            ops += [('del',), ('call', idx, 1), ('def', ar, draw(st.sampled_from(BODIES[ar]))), ('call', idx, 1)]
        elif kind == 'def':
            ar = draw(st.integers(0, 3))
            ops.append(('def', ar, draw(st.sampled_from(BODIES[ar]))))
        elif kind in ('call', 'call_wrong'):
            ops.append((kind, tuple(draw(st.integers(0, len(PYARGS) - 1)) for _ in range(3)), draw(st.integers(1, 2))))
        else:
            ops.append((kind,))
    return ops


def run_history(ops):
    """Execute a wrapper history; returns (list of failures, flags)."""
    from klongpy import KlongInterpreter
    k = KlongInterpreter()
    fails = []
    flags = set()
    cur = None          # (arity, body) bound to the name now
    wrapper = None
    captured = None     # definition at capture time
    ndefs = 0
    for op in ops:
        if op[0] == 'def':
            _, ar, body = op
            k('fn::' + body)
            if cur is not None:
                flags.add('redefinition')
            cur = (ar, body)
            ndefs += 1
        elif op[0] == 'del':
            if cur is not None:
                del k['fn']
                cur = None
                flags.add('deletion')
        elif op[0] == 'capture':
            if cur is not None:
                wrapper = k['fn']
                captured = cur
        else:
            if wrapper is None:
                continue
            eff = cur if cur is not None else captured
            ar = eff[0]
            idxs, delta = op[1], op[2]
            if captured != eff:
                flags.add('call-after-redefinition')
            if op[0] == 'call_wrong':
                n = ar + delta if ar + delta <= 3 else max(0, ar - delta)
                if n == ar:
                    continue
                args = [PYARGS[i] for i in idxs[:n]]
                try:
                    r = wrapper(*args)
                    fails.append(('wrapper/wrong-count-accepted', f'{len(args)} arguments for arity {ar} are rejected', show(to_canon(r))[:80]))
                except Exception:
                    pass
                continue
            args = [PYARGS[i] for i in idxs[:ar]]
            # reference: the Klong call with the same arguments against the effective definition
            k2 = KlongInterpreter()
            k2('fn::' + eff[1])
            try:
                want = ('val', to_canon(k2('fn(' + ';'.join(pyarg_lit(a) for a in args) + ')')))
            except Exception as e:
                want = ('err', type(e).__name__)
            try:
                got = ('val', to_canon(wrapper(*args)))
            except Exception as e:
                got = ('err', f'{type(e).__name__}: {e}'[:80])
            if want[0] != got[0] or (want[0] == 'val' and not ceq(want[1], got[1], match=True)):
                state = 'deleted' if cur is None else 'redefined' if captured != cur else 'same'
                fails.append((f'wrapper/call/{state}/arity{ar}/body={eff[1]}', f'fn({";".join(pyarg_lit(a) for a in args)}) = '
                              + (show(want[1])[:80] if want[0] == 'val' else 'raises ' + want[1]),
                              show(got[1])[:80] if got[0] == 'val' else 'raises ' + got[1]))
        if fails:
            break
    return fails, flags


def wrapper_shard(seed_value, n):
    stats = core.Stats()
    f = core.Findings("C09")

    def make_test(report):
        @given(histories())
        def t(ops):
            fails, flags = run_history(ops)
            stats.case(('wrapper', repr(ops)), nontrivial=bool(flags & {'redefinition', 'deletion', 'call-after-redefinition'}),
                       classes=['part:wrapper'] + ['flag:' + x for x in sorted(flags)],
                       sample={"ops": [list(map(str, o)) for o in ops]} if len(ops) > 4 else None)
            if fails:
                report(fails[0][0], {"part": "wrapper", "ops": ops}, expected=fails[0][1], observed=fails[0][2])
        return t
    core.hyp_collect(stats, make_test, seed_value, n, rounds=8, is_known=lambda k: f.match(k) is not None)
    return stats


def check(run):
    quick = run.tier == 'quick'
    run.absorb(core.pool_map('vk.c09_interop', 'data_shard', [(i, 2) for i in range(2)]))
    run.absorb(core.pool_map('vk.c09_interop', 'callable_shard', [(i, 8) for i in range(8)]))
    run.absorb(core.pool_map('vk.c09_interop', 'wrapper_shard', [(run.seed * 1000 + i, 800 if quick else 15000) for i in range(6)]))
    run.exhaustive = True
    run.coverage_extra['exhaustive_parts'] = ['signature shapes x callable kinds x call forms x argument tuples']
    run.min_class_fraction = {'flag:call-after-redefinition': 0.005}


def replay(case):
    out = []
    st_ = core.Stats()

    def report(fkey, case_, expected=None, observed=None, note=None):
        out.append((fkey, expected, observed))
    if case["part"] == 'callable':
        judge_callable(st_, report, case["kind"], tuple(case["sig"]), case["with_klong"], case["form"],
                       tuple(tuple(a) if isinstance(a, list) else a for a in case["args"]), case.get("prebound"))
    elif case["part"] == 'wrapper':
        fails, _ = run_history([tuple(tuple(x) if isinstance(x, list) else x for x in o) for o in case["ops"]])
        out = [(f[0], f[1], f[2]) for f in fails]
    else:
        s2 = data_shard(0, 1)
        out = [(k, v['expected'], v['observed']) for k, v in s2.failures.items()]
    return out
