"""C03 - function application, projection, locals and conditionals follow substitution.

(a) substitution: generated bodies x argument tuples x call forms; oracle = the body text with the
    argument literals substituted, evaluated in a fresh interpreter with the same globals.
(b) projections: every hole pattern of arity 2/3 x every order of filling the holes (exhaustive).
(c) locals and failure: generated programs of up to three nested calls with declared locals and
    global assignments, a raising Python callable placed at every position; oracle = a small
    model of the restricted statement language + a fixed probe suite vs a fresh interpreter.
(d) conditionals over the truth universe, :| chains, only the selected branch evaluated.
DESIGN.md 3/C03.
"""
import itertools
import os

from hypothesis import given, strategies as st

from . import core
from .canon import to_canon, ceq, render, show, snapshot, from_json, I, L, S

LEVEL = "exploration"
RULE = ("(a) body tree (depth<=4) over x y z, integer / list literals and two globals with verbs total on the universe "
        "(+ - * | & , ~ = < dyads; - , # * monads) x argument tuples x call form (literal function, variable, @, each, "
        "each-2, over, recursion through .f, projection); (b) all projection patterns of arity 2 and 3 x all ordered "
        "partitions of the holes into filling steps (exhaustive); (c) programs of 1-3 nested calls with declared locals, "
        "local and global assignments and one raising call at every position (fault enumeration); (d) conditionals over "
        "the truth universe incl. :| chains; non-trivial = body uses >=2 of x,y,z or the call goes through a projection / "
        "adverb / recursion, failure depth >=2 for (c); distinct by case")
ASSUMPTIONS = [
    "substitution oracle runs in klongpy itself (fresh interpreter, same globals): it checks application against plain evaluation of the body",
    "application is written on a symbol or a function literal (the implementation's grammar); projection steps go through named variables",
    "(c): global assignments appear at statement level only, so the set executed before the failure is determined by statement order",
    "0.0 is not used as a condition (the reference names only 0, [] and \"\" as false)",
]

# ----------------------------------------------------------------------------- (a) substitution

INTS = [0, 1, 2, -3, 7]
LISTS = [(1, 2, 3), (4, 0, -1)]
GLOBALS = {'ga': I(5), 'gb': L(I(2), I(2), I(9))}
DY = ['+', '-', '*', '|', '&', ',', '~', '=', '<']
MO = ['-', ',', '#', '*']


def lit(v):
    return I(v) if isinstance(v, int) else L(*[I(i) for i in v])


def body_strategy(params):
    leaves = st.one_of(st.sampled_from([('p', p) for p in params]), st.sampled_from([('p', p) for p in params]),
                       st.sampled_from([('n', v) for v in INTS + LISTS]), st.sampled_from([('g', g) for g in GLOBALS]))
    return st.recursive(leaves, lambda ch: st.one_of(st.tuples(st.just('d'), st.sampled_from(DY), ch, ch),
                                                     st.tuples(st.just('d'), st.sampled_from(DY), ch, ch),
                                                     st.tuples(st.just('m'), st.sampled_from(MO), ch)), max_leaves=6)


def btext(e, sub):
    """Text of a body tree; sub maps parameter -> text (symbol itself, or a parenthesised literal)."""
    t = e[0]
    if t == 'p':
        return sub[e[1]]
    if t == 'g':
        return e[1]
    if t == 'n':
        return render(lit(e[1]))
    if t == 'd':
        return '(' + btext(e[2], sub) + ')' + e[1] + '(' + btext(e[3], sub) + ')'
    if t == 'm':
        return e[1] + '(' + btext(e[2], sub) + ')'
    raise ValueError(e)


def params_used(e):
    if e[0] == 'p':
        return {e[1]}
    s = set()
    for x in e[1:]:
        if isinstance(x, tuple) and x and isinstance(x[0], str) and x[0] in 'pgndm':
            s |= params_used(x)
    return s


def fresh():
    from klongpy import KlongInterpreter
    k = KlongInterpreter()
    for g, c in GLOBALS.items():
        k(g + '::' + render(c))
    return k


def outcome(k, text):
    try:
        return ('val', to_canon(k(text)))
    except RecursionError:
        return ('err', 'RecursionError')
    except Exception as e:
        return ('err', type(e).__name__)


def same(a, b):
    if a[0] != b[0]:
        return False
    return a[0] == 'err' or ceq(a[1], b[1], rtol=1e-12, atol=0)


def so(o):
    return show(o[1])[:120] if o[0] == 'val' else 'raises ' + o[1]


FORMS = ['literal', 'variable', 'at', 'each', 'each2', 'over', 'projection', 'recursion',
         'literal-nopin', 'variable-nopin', 'at-nopin', 'each-nopin', 'each2-nopin', 'over-nopin', 'projection-nopin']


def build_call(form, body, arity, args):
    """Return (setup statements, call text, expected text) for one call form; args are python ints/tuples."""
    P = ['x', 'y', 'z'][:arity]
    sym = {p: p for p in P}
    nopin = form.endswith('-nopin')      # without the pin klongpy infers the arity from the body
    form = form[:-6] if nopin else form
    pin = '' if nopin else ';'.join(P) + ';'
    ftxt = '{' + pin + btext(body, sym) + '}'      # leading x;y;z pins the arity

    def subst(vals):
        return btext(body, {p: '(' + render(lit(v)) + ')' for p, v in zip(P, vals)})
    A = [render(lit(a)) for a in args]
    if form == 'literal':
        return [], ftxt + '(' + ';'.join(A) + ')', subst(args)
    if form == 'variable':
        return ['f::' + ftxt], 'f(' + ';'.join(A) + ')', subst(args)
    if form == 'at':
        if arity == 1:
            # a list operand of @ supplies the argument list: a list argument travels as its only member
            return ['f::' + ftxt], ('f@' + A[0]) if isinstance(args[0], int) else ('f@,' + A[0]), subst(args)
        if not all(isinstance(a, int) for a in args):
            return None
        return ['f::' + ftxt], 'f@[' + ' '.join(render(lit(a), True) for a in args) + ']', subst(args)
    if form == 'each':
        if arity != 1:
            return None
        items = args[0] if isinstance(args[0], tuple) else (args[0], 2, 7)
        return ['f::' + ftxt], "f'" + render(lit(tuple(items))), '[;' + ';'.join(subst([i]) for i in items) + ']'
    if form == 'each2':
        if arity != 2:
            return None
        a = args[0] if isinstance(args[0], tuple) else (args[0], 1, 2)
        b = args[1] if isinstance(args[1], tuple) else (args[1], 0, 7)
        return ['f::' + ftxt], render(lit(a)) + "f'" + render(lit(b)), '[;' + ';'.join(subst([p, q]) for p, q in zip(a, b)) + ']'
    if form == 'over':
        if arity != 2:
            return None
        items = [args[0], args[1], 2]
        if not all(isinstance(i, int) for i in items):
            return None
        inner = subst(items[:2])
        outer = btext(body, {'x': '(' + inner + ')', 'y': '(2)'})
        return ['f::' + ftxt], 'f/' + render(lit(tuple(items))), outer
    if form == 'projection':
        if arity < 2:
            return None
        # fix the last argument first, then supply the rest
        holes = ';'.join([''] * (arity - 1))
        return ['f::' + ftxt, 'p::f(' + holes + ';' + A[-1] + ')'], 'p(' + ';'.join(A[:-1]) + ')', subst(args)
    if form == 'recursion':
        if arity != 1 or not isinstance(args[0], int):
            return None
        n = abs(args[0]) % 4
        # {:[x<1;BASE;BODY(x) , .f(x-1)]} unrolled textually
        def unroll(i):
            if i < 1:
                return '(0)'
            return '((' + subst([i]) + '),' + unroll(i - 1) + ')'
        rec = '{:[x<1;0;(' + btext(body, sym) + '),.f(x-1)]}'
        return ['f::' + rec], f'f({n})', unroll(n)
    raise ValueError(form)


def judge_subst(stats, report, body, arity, args, form):
    built = build_call(form, body, arity, args)
    if built is None:
        stats.reject('call form not applicable to this arity / argument kinds')
        return
    setup, call, expected = built
    k1 = fresh()
    for s in setup:
        k1(s)
    got = outcome(k1, call)
    want = outcome(fresh(), expected)
    used = params_used(body)
    stats.case(('subst', form, call, tuple(setup)), nontrivial=len(used) >= 2 or form not in ('literal', 'variable'),
               classes=['part:substitution', 'form:' + form, 'arity:%d' % arity],
               sample={"setup": setup, "call": call, "substituted": expected, "value": so(got)})
    if not same(got, want):
        report(f"substitution/{form}/arity{arity}/{got[0]}-vs-{want[0]}",
               {"part": "subst", "body": body, "arity": arity, "args": args, "form": form, "setup": setup, "call": call,
                "substituted": expected}, expected=so(want), observed=so(got))


@st.composite
def subst_cases(draw):
    arity = draw(st.sampled_from([1, 2, 2, 3]))
    P = ['x', 'y', 'z'][:arity]
    body = draw(body_strategy(P))
    args = [draw(st.sampled_from(INTS + LISTS)) for _ in P]
    form = draw(st.sampled_from(FORMS))
    return body, arity, args, form


# ----------------------------------------------------------------------------- (b) projections

def ordered_partitions(items):
    """All ordered set partitions of items into non-empty steps (each step keeps positional order)."""
    items = list(items)
    if not items:
        yield []
        return
    n = len(items)
    for k in range(1, n + 1):
        for first in itertools.combinations(items, k):
            rest = [i for i in items if i not in first]
            for tail in ordered_partitions(rest):
                yield [list(first)] + tail


def projection_cases():
    for arity in (2, 3):
        for nholes in range(1, arity):
            for holes in itertools.combinations(range(arity), nholes):
                for steps in ordered_partitions(holes):
                    yield arity, holes, steps, True


def run_projection(arity, holes, steps, explicit, vals):
    """Build the named-intermediate program for one pattern / fill order."""
    P = ['x', 'y', 'z'][:arity]
    weights = [100, 10, 1]
    structured = any(isinstance(v, str) for v in vals)       # argument values given as literal text (lists, strings, [])
    if structured:
        # the function returns the list of its arguments; the oracle is the same body with the literals substituted
        record = lambda names: ','.join('(,' + n + ')' for n in names[:-1]) + ',,' + names[-1]
        stmts = ['f::{' + ';'.join(P) + ';' + record(P) + '}']
    else:
        stmts = ['f::{' + ';'.join(P) + ';' + '+'.join(f'({p}*{w})' for p, w in zip(P, weights[:arity])) + '}']
    first = ';'.join('' if i in holes else str(vals[i]) for i in range(arity))
    stmts.append(f'p0::f({first})')
    open_holes = list(holes)
    name = 'p0'
    for si, step in enumerate(steps):
        last = si == len(steps) - 1
        args = []
        for h in open_holes:
            args.append(str(vals[h]) if h in step else '')
        if not explicit or last:
            while args and args[-1] == '':
                args.pop()          # trailing holes may be left out (shorter argument list)
        call = f"{name}({';'.join(args)})"
        open_holes = [h for h in open_holes if h not in step]
        if last:
            if structured:
                return stmts, call, ('text', record([str(v) for v in vals[:arity]]))
            return stmts, call, sum(v * w for v, w in zip(vals, weights[:arity]))
        name = f'p{si + 1}'
        stmts.append(f'{name}::{call}')
    raise AssertionError


def projection_shard(idx, nshards):
    stats = core.Stats()

    def report(fkey, case, expected=None, observed=None, note=None):
        stats.fail(fkey, case, expected, observed, note)
    for n, (arity, holes, steps, explicit) in enumerate(projection_cases()):
        if n % nshards != idx:
            continue
        for vals in ([1, 2, 3], [7, 0, 4], ['[1 2]', '"ab"', '[]'], ['[]', '[3 4 5]', '7'], ['[[1] [2 3]]', '0', '[9 8]']):
            judge_projection(stats, report, arity, holes, steps, explicit, vals)
    return stats


def judge_projection(stats, report, arity, holes, steps, explicit, vals):
    stmts, call, want = run_projection(arity, list(holes), [list(s) for s in steps], explicit, vals)
    k = fresh()
    got = None
    try:
        for s in stmts:
            k(s)
        got = outcome(k, call)
    except Exception as e:
        got = ('err', type(e).__name__)
    stats.case(('proj', arity, tuple(holes), tuple(map(tuple, steps)), explicit, tuple(vals)), nontrivial=True,
               classes=['part:projection', 'arity:%d' % arity, 'steps:%d' % len(steps)],
               sample={"program": stmts + [call], "expected": want, "value": so(got)})
    if isinstance(want, tuple) and want[0] == 'text':
        wv = outcome(fresh(), want[1])
        ok = got == wv
        want = so(wv)
    else:
        ok = got[0] == 'val' and got[1] == ('i', want)
    if not ok:
        order = 'in-order' if [h for s in steps for h in s] == sorted(holes) else 'out-of-order'
        report(f"projection/arity{arity}/holes{len(holes)}/steps{len(steps)}/{order}/{'explicit' if explicit else 'short'}",
               {"part": "proj", "arity": arity, "holes": list(holes), "steps": [list(s) for s in steps], "explicit": explicit,
                "vals": vals, "program": stmts + [call]}, expected=want, observed=so(got))


# ----------------------------------------------------------------------------- (c) locals and failure

class Boom(Exception):
    pass


PROBES = ['1+2', 'sq::{x*x};sq(4)', "{x+1}'[1 2 3]", '+/[1 2 3]', 'h::{[t];t::x;t+1};h(5)', ':[1;2;3]', 'w::{x,y};w(1;2)',
          '{:[x<1;0;1+.f(x-1)]}(3)', 'G1,G2,G3', 'q::{-x};q(4)']


@st.composite
def fail_programs(draw):
    depth = draw(st.sampled_from([1, 2, 2, 3, 3]))
    fns = []
    for lvl in range(depth):
        nst = draw(st.integers(1, 3))
        stmts = []
        for _ in range(nst):
            kind = draw(st.sampled_from(['local', 'global', 'global', 'local2']))
            if kind == 'global':
                stmts.append(('global', draw(st.sampled_from(['G1', 'G2', 'G3'])), draw(st.integers(10, 99))))
            elif kind == 'local':
                stmts.append(('local', 'a', draw(st.sampled_from(['x+1', 'x*2', '(x,x)', 'G1+x']))))
            else:
                stmts.append(('local', 'b', draw(st.sampled_from(['a', 'x-1', '7']))))
        call_at = draw(st.integers(0, nst)) if lvl < depth - 1 else None
        fns.append({'stmts': stmts, 'call_at': call_at, 'shadow': draw(st.booleans())})
    # positions where boom can sit: (level, statement index, where)
    positions = []
    for lvl, fn in enumerate(fns):
        for i, stt in enumerate(fn['stmts']):
            if stt[0] == 'local':
                positions.append((lvl, i, 'expr'))
        if fn['call_at'] is not None:
            positions.append((lvl, 'call', 'arg'))
            positions.append((lvl, 'call', 'after'))
        positions.append((lvl, 'final', 'expr'))
    pos = draw(st.sampled_from(positions))
    return fns, pos


def render_program(fns, pos):
    """Klong definitions f1..fn for the nested program with boom at pos; plus the model's expected
    global assignments executed before the failure."""
    defs = []
    executed = []      # filled by model()
    for lvl, fn in enumerate(fns):
        name = f'f{lvl + 1}'
        locs = '[a b]' if not fn['shadow'] else '[a b y]'
        parts = [locs]
        for i, stt in enumerate(fn['stmts']):
            if fn['call_at'] == i:
                parts.append(call_text(lvl, pos))
            if stt[0] == 'global':
                parts.append(f'{stt[1]}::{stt[2]}')
            else:
                e = stt[2]
                if pos == (lvl, i, 'expr'):
                    e = f'boom({e})'
                parts.append(f'{stt[1]}::{e}')
        if fn['call_at'] == len(fn['stmts']):
            parts.append(call_text(lvl, pos))
        fin = 'x'
        if pos == (lvl, 'final', 'expr'):
            fin = 'boom(x)'
        parts.append(fin)
        defs.append(name + '::{' + parts[0] + ';x;' + ';'.join(parts[1:]) + '}')
    return defs


def call_text(lvl, pos):
    arg = 'x+1'
    if pos == (lvl, 'call', 'arg'):
        arg = 'boom(x+1)'
    t = f'b::f{lvl + 2}({arg})'
    if pos == (lvl, 'call', 'after'):
        t = f'b::boom(f{lvl + 2}({arg}))'
    return t


def model(fns, pos):
    """Globals assigned by statements executed before the failure (in order); returns dict."""
    assigned = {}

    class Stop(Exception):
        pass

    def run(lvl):
        fn = fns[lvl]
        for i, stt in enumerate(fn['stmts']):
            if fn['call_at'] == i:
                do_call(lvl)
            if stt[0] == 'global':
                assigned[stt[1]] = stt[2]
            elif pos == (lvl, i, 'expr'):
                raise Stop()
        if fn['call_at'] == len(fn['stmts']):
            do_call(lvl)
        if pos == (lvl, 'final', 'expr'):
            raise Stop()

    def do_call(lvl):
        if pos == (lvl, 'call', 'arg'):
            raise Stop()
        run(lvl + 1)
        if pos == (lvl, 'call', 'after'):
            raise Stop()
    try:
        run(0)
        return assigned, False
    except Stop:
        return assigned, True


def judge_failure(stats, report, fns, pos):
    from klongpy import KlongInterpreter
    k = KlongInterpreter()

    def boom(x):
        raise Boom()
    k['boom'] = boom
    base = {'G1': 1, 'G2': 2, 'G3': 3, 'a': 111, 'keep': 5}
    for n, v in base.items():
        k(f'{n}::{v}')
    k('lst::[1 2 3]')
    defs = render_program(fns, pos)
    for d in defs:
        k(d)
    depth0 = len(k._context._context)
    before = snapshot(k)
    try:
        k('f1(4)')
        raised = False
    except Boom:
        raised = True
    except Exception as e:
        raised = type(e).__name__
    assigned, should_raise = model(fns, pos)
    after = snapshot(k)
    depth1 = len(k._context._context)
    case = {"part": "fail", "fns": fns, "pos": pos, "defs": defs}
    fdepth = pos[0] + 1
    stats.case(('fail', tuple(defs)), nontrivial=fdepth >= 2, classes=['part:failure', 'failure-depth:%d' % fdepth,
                                                                      'boom-at:' + str(pos[2])],
               sample={"defs": defs, "call": "f1(4)", "boom_position": list(map(str, pos)), "globals_expected": assigned})
    kind = None
    if raised is not True:
        kind, exp, obs = 'no-failure', 'the call fails (Boom)', f'raised={raised}'
    elif depth1 != depth0:
        kind, exp, obs = 'context-depth', f'context depth {depth0}', f'{depth1}'
    else:
        want = dict(before)
        for g, v in assigned.items():
            want[g] = ('i', v)
        for name in sorted(set(want) | set(after)):
            if want.get(name) != after.get(name):
                role = 'global' if name in ('G1', 'G2', 'G3') else 'caller-variable' if name in before else 'leaked-name'
                kind, exp, obs = 'state/' + role, f'{name} = {show(want[name]) if name in want else "<absent>"}', \
                    f'{show(after[name]) if name in after else "<absent>"}'
                break
    if kind is None:
        # further programs behave as if the failed call had not happened
        k2 = KlongInterpreter()
        k2['boom'] = boom
        for n, v in base.items():
            k2(f'{n}::{assigned.get(n, v)}')
        k2('lst::[1 2 3]')
        for d in defs:
            k2(d)
        for pr in PROBES:
            o1, o2 = outcome(k, pr), outcome(k2, pr)
            if not same(o1, o2):
                kind, exp, obs = 'probe', f'{pr} -> {so(o2)}', so(o1)
                break
    if kind:
        report(f"failure/{kind}/depth{fdepth}", case, expected=exp, observed=obs)


# ----------------------------------------------------------------------------- (d) conditionals

TRUTH = [('0', False), ('[]', False), ('""', False), ('1', True), ('(-1)', True), ('2.5', True), ('[0]', True), ('"a"', True),
         (':s', True), ('0c0', True), (':{[1 2]}', True), ('{x}', True), ('[[]]', True), ('0c ', True), ('(1-1)', False),
         ('(1_[7])', False), ('(,0)', True),
         # non-zero reals of every magnitude are true ("everything else is true"): also tiny ones and rounding residue
         ('1.0e-9', True), ('(-1.0e-12)', True), ('1.0e-300', True), ('((0.1+0.2)-0.3)', True), ('(1%3000000000)', True)]


def cond_shard(idx, nshards):
    stats = core.Stats()

    def report(fkey, case, expected=None, observed=None, note=None):
        stats.fail(fkey, case, expected, observed, note)
    n = 0
    for (c1, t1) in TRUTH:
        for (c2, t2) in TRUTH:
            for form in ('simple', 'chain', 'infn'):
                n += 1
                if n % nshards != idx:
                    continue
                judge_cond(stats, report, c1, t1, c2, t2, form)
    return stats


def judge_cond(stats, report, c1, t1, c2, t2, form):
    from klongpy import KlongInterpreter
    k = KlongInterpreter()
    for v in 'tuvw':
        k(f'{v}::0')
    if form == 'simple':
        text = f':[{c1};t::11;u::22]'
        want_val, want_set = (11, 't') if t1 else (22, 'u')
    elif form == 'chain':
        text = f':[{c1};t::11:|{c2};u::22;v::33]'
        want_val, want_set = (11, 't') if t1 else (22, 'u') if t2 else (33, 'v')
    else:
        text = f'{{:[x;t::11;u::22]}}({c1})'
        want_val, want_set = (11, 't') if t1 else (22, 'u')
    got = outcome(k, text)
    state = {v: to_canon(k(v)) for v in 'tuvw'}
    stats.case(('cond', text), nontrivial=form != 'simple', classes=['part:conditional', 'form:' + form],
               sample={"text": text, "value": so(got)})
    want_state = {v: ('i', 0) for v in 'tuvw'}
    want_state[want_set] = ('i', want_val)
    if got != ('val', ('i', want_val)) or state != want_state:
        report(f"conditional/{form}/cond={c1 if form != 'chain' or t1 else c2}",
               {"part": "cond", "c1": c1, "t1": t1, "c2": c2, "t2": t2, "form": form, "text": text},
               expected=f'value {want_val}, only {want_set} assigned',
               observed=f'{so(got)}, state ' + ' '.join(f'{v}={show(c)}' for v, c in state.items()))


# ----------------------------------------------------------------------------- driver

def hyp_shard(part, seed_value, n):
    stats = core.Stats()
    f = core.Findings("C03")

    def make_test(report):
        if part == 'subst':
            @given(subst_cases())
            def t(c):
                judge_subst(stats, report, *c)
        else:
            @given(fail_programs())
            def t(c):
                judge_failure(stats, report, *c)
        return t
    core.hyp_collect(stats, make_test, seed_value, n, rounds=8, is_known=lambda k: f.match(k) is not None)
    return stats


def check(run):
    quick = run.tier == 'quick'
    S = run.seed * 1000
    run.absorb(core.pool_map('vk.c03_apply', 'projection_shard', [(i, 4) for i in range(4)]))
    run.absorb(core.pool_map('vk.c03_apply', 'cond_shard', [(i, 4) for i in range(4)]))
    jobs = [('subst', S + i, 1500 if quick else 30000) for i in range(10)] + [('fail', S + 50 + i, 500 if quick else 10000) for i in range(6)]
    run.absorb(core.pool_map('vk.c03_apply', 'hyp_shard', jobs))
    run.exhaustive = True
    run.coverage_extra['exhaustive_parts'] = ['projection patterns x fill orders (arity 2 and 3)', 'conditional truth universe x forms']
    run.min_class_fraction = {'part:failure': 0.05, 'part:substitution': 0.2}


def replay(case):
    out = []
    st_ = core.Stats()

    def report(fkey, case_, expected=None, observed=None, note=None):
        out.append((fkey, expected, observed))
    part = case["part"]
    if part == 'subst':
        judge_subst(st_, report, from_json(case["body"]), case["arity"], [tuple(a) if isinstance(a, list) else a for a in case["args"]], case["form"])
    elif part == 'proj':
        judge_projection(st_, report, case["arity"], tuple(case["holes"]), case["steps"], case["explicit"], case["vals"])
    elif part == 'fail':
        fns = [dict(fn, stmts=[tuple(s) for s in fn['stmts']]) for fn in case["fns"]]
        judge_failure(st_, report, fns, tuple(case["pos"]))
    else:
        judge_cond(st_, report, case["c1"], case["t1"], case["c2"], case["t2"], case["form"])
    return out
