"""C12, thorough tier: coverage-guided fuzzing of KlongInterpreter.prog with atheris (libFuzzer).

Run as a subprocess by vk.c12_parse (one process per worker):
    python -m vk.c12_fuzz <outdir> <corpusdir> <runs> <seed> <deps>
The fuzz target decodes the bytes into text (a token dictionary drives libFuzzer's mutations towards Klong lexemes), and
applies the same oracle as the other parts: bounded line-event work, parse-twice structural equality, no effect on
variables.  A failing text does not stop the campaign: it is written to <outdir>/fail-<hash>.json and the search goes on
(libFuzzer would otherwise end at the first one).  Counters are flushed to <outdir>/stats.json every 500 executions,
because atexit handlers do not run under libFuzzer.
"""
import hashlib
import json
import os
import sys


def main():
    outdir, corpusdir, runs, seed, deps = sys.argv[1:6]
    sys.path.insert(0, deps)
    here = os.path.dirname(os.path.dirname(os.path.abspath(__file__)))
    sys.path.insert(0, here)
    import atheris
    from vk import core
    core.setup_repo_path()
    with atheris.instrument_imports(include=['klongpy.parser', 'klongpy.interpreter']):
        import klongpy  # noqa
        import klongpy.parser  # noqa
        import klongpy.interpreter  # noqa
    from vk import c12_parse as c12

    counters = {"execs": 0, "nontrivial": 0, "parsed": 0, "failures": 0, "max_len": 0, "max_fraction": 0.0}
    seen = set()

    def flush():
        with open(os.path.join(outdir, 'stats.json.tmp'), 'w') as f:
            json.dump(counters, f)
        os.replace(os.path.join(outdir, 'stats.json.tmp'), os.path.join(outdir, 'stats.json'))

    def one(data):
        try:
            text = data.decode('utf-8', 'ignore')[:2048]
        except Exception:
            return
        counters["execs"] += 1
        fails, info = c12.check_text(text, do_eval=False)
        if c12.ntokens(text) >= 2:
            counters["nontrivial"] += 1
        if info.get('parsed'):
            counters["parsed"] += 1
        counters["max_len"] = max(counters["max_len"], len(text))
        w = info.get('work') or 0
        counters["max_fraction"] = max(counters["max_fraction"], w / c12.B(len(text)))
        if fails:
            kind = fails[0][0]
            h = hashlib.sha1((kind + '\0' + text).encode()).hexdigest()[:16]
            if h not in seen:
                seen.add(h)
                counters["failures"] += 1
                with open(os.path.join(outdir, f'fail-{h}.json'), 'w') as f:
                    json.dump({"kind": kind, "text": text, "expected": str(fails[0][1])[:300], "observed": str(fails[0][2])[:300]}, f)
        if counters["execs"] % 500 == 0:
            flush()

    flush()
    argv = [sys.argv[0], corpusdir, f'-runs={runs}', f'-seed={seed}', '-max_len=2048', '-timeout=60', '-rss_limit_mb=4096',
            '-print_final_stats=0', '-verbosity=0', f'-dict={os.path.join(outdir, "tokens.dict")}']
    atheris.Setup(argv, one)
    try:
        atheris.Fuzz()
    finally:
        flush()


if __name__ == '__main__':
    main()
