"""A deterministic cooperative scheduler for real threads (C18).

Every task is a real thread, but only the one holding the baton runs; a task gives the baton back at each yield point
(lock acquire / release, task submission, task start / end, future wait, file-system call).  Which runnable task runs
next is decided by a schedule: a list of small integers (0 = let the current task continue when it can, k = switch to the
k-th other runnable task), so a run is a pure function of (program, schedule) and can be replayed.
"""
import threading


class Deadlock(Exception):
    pass


class Task:
    def __init__(self, sched, tid, name, fn):
        self.sched = sched
        self.tid = tid
        self.name = name
        self.fn = fn
        self.go = threading.Event()
        self.state = 'runnable'         # runnable | blocked | done
        self.pred = None
        self.result = None
        self.error = None
        self.thread = threading.Thread(target=self._main, daemon=True)

    def _main(self):
        self.go.wait()
        self.go.clear()
        try:
            if not self.sched.aborted:
                self.result = self.fn()
        except BaseException as e:  # noqa
            self.error = e
        self.state = 'done'
        self.sched.back.set()


class Sched:
    def __init__(self, schedule=(), max_steps=5000):
        self.tasks = []
        self.schedule = list(schedule)
        self.pos = 0
        self.back = threading.Event()
        self.current = None
        self.trace = []
        self.steps = 0
        self.max_steps = max_steps
        self.preemptions = 0
        self.aborted = False
        self.clock = 0
        self.gaps = []           # names the code under test asked of the models below that they do not cover

    # -- called by the harness (main thread) ------------------------------------------------
    def spawn(self, name, fn):
        t = Task(self, len(self.tasks), name, fn)
        self.tasks.append(t)
        t.thread.start()
        return t

    def runnable(self):
        out = []
        for t in self.tasks:
            if t.state == 'runnable' or (t.state == 'blocked' and t.pred()):
                out.append(t)
        return out

    def run(self):
        """run until every task is done; raises Deadlock when tasks remain but none can run"""
        while True:
            live = [t for t in self.tasks if t.state != 'done']
            if not live:
                return
            ready = self.runnable()
            if not ready:
                self.abort()
                raise Deadlock(', '.join(f'{t.name}:{t.state}' for t in live))
            self.steps += 1
            if self.steps > self.max_steps:
                self.abort()
                raise Deadlock('step budget exhausted (livelock?)')
            nxt = self.choose(ready)
            self.current = nxt
            nxt.state = 'running'
            self.back.clear()
            nxt.go.set()
            self.back.wait()

    def choose(self, ready):
        cur = self.current
        can_continue = cur is not None and cur in ready
        c = self.schedule[self.pos] if self.pos < len(self.schedule) else 0
        self.pos += 1
        if can_continue:
            if c == 0:
                return cur
            others = [t for t in ready if t is not cur]
            if not others:
                return cur
            self.preemptions += 1
            return others[(c - 1) % len(others)]
        return ready[c % len(ready)]

    def abort(self):
        """let every parked thread finish without running more of the program"""
        self.aborted = True
        for t in self.tasks:
            if t.state != 'done':
                t.go.set()

    # -- called by tasks --------------------------------------------------------------------
    def me(self):
        return self.current

    def yield_point(self, label):
        t = self.current
        if t is None or self.aborted:
            return
        self.trace.append((t.name, label))
        t.state = 'runnable'
        self._park(t)

    def block_until(self, pred, label):
        t = self.current
        if t is None or self.aborted:
            return
        while not pred():
            self.trace.append((t.name, 'wait ' + label))
            t.state = 'blocked'
            t.pred = pred
            self._park(t)

    def _park(self, t):
        self.back.set()
        t.go.wait()
        t.go.clear()
        if self.aborted:
            raise SystemExit()

    def now(self):
        self.clock += 1
        return self.clock


class ModelGap(AttributeError):
    """the code under test used a lock / future / executor name these models do not cover: a harness gap, never a verdict"""


class SLock:
    def __init__(self, sched, name='lock'):
        self.sched = sched
        self.name = name
        self.owner = None

    def __getattr__(self, name):
        if name.startswith('_'):
            raise AttributeError(name)
        self.sched.gaps.append('Lock.' + name)
        raise ModelGap('Lock.' + name)

    def acquire(self, blocking=True, timeout=-1):
        self.sched.yield_point('acquire ' + self.name)
        if not blocking:
            if self.owner is not None:
                return False
        else:
            # a timeout is not modelled as expiring: waiting forever is reported as a deadlock by the scheduler
            self.sched.block_until(lambda: self.owner is None, self.name)
        self.owner = self.sched.me()
        return True

    def release(self):
        if self.owner is None:
            raise RuntimeError('release unlocked lock')
        self.owner = None
        self.sched.yield_point('release ' + self.name)

    def locked(self):
        return self.owner is not None

    def __enter__(self):
        self.acquire()
        return self

    def __exit__(self, *a):
        self.release()
        return False


class SFuture:
    """concurrent.futures.Future as the code under test sees it (a submitted task cannot be cancelled once it exists as a
    scheduler task, which is what ThreadPoolExecutor does for a task a worker has picked up)"""

    def __init__(self, sched):
        self.sched = sched
        self._done = False
        self._started = False
        self._result = None
        self._error = None
        self._callbacks = []

    def __getattr__(self, name):
        if name.startswith('_'):
            raise AttributeError(name)
        self.sched.gaps.append('Future.' + name)
        raise ModelGap('Future.' + name)

    def done(self):
        return self._done

    def running(self):
        return self._started and not self._done

    def cancelled(self):
        return False

    def cancel(self):
        return False

    def _wait(self):
        self.sched.yield_point('future.result')
        self.sched.block_until(lambda: self._done, 'future')

    def result(self, timeout=None):
        self._wait()
        if self._error is not None:
            raise self._error
        return self._result

    def exception(self, timeout=None):
        self._wait()
        return self._error

    def add_done_callback(self, fn):
        if self._done:
            fn(self)
        else:
            self._callbacks.append(fn)

    def _finish(self):
        self._done = True
        for fn in self._callbacks:
            try:
                fn(self)
            except Exception:  # noqa: as concurrent.futures does, a failing callback is logged and ignored
                pass


class SExecutor:
    def __init__(self, sched):
        self.sched = sched
        self.count = 0

    def __getattr__(self, name):
        if name.startswith('_'):
            raise AttributeError(name)
        self.sched.gaps.append('Executor.' + name)
        raise ModelGap('Executor.' + name)

    def submit(self, fn, *args, **kwargs):
        fut = SFuture(self.sched)
        self.count += 1
        name = f'worker{self.count}:{getattr(fn, "__name__", "task")}'

        def body():
            self.sched.yield_point('task start')
            fut._started = True
            try:
                fut._result = fn(*args, **kwargs)
            except SystemExit:
                raise
            except BaseException as e:  # noqa
                fut._error = e
            fut._finish()
            return None
        self.sched.spawn(name, body)
        self.sched.yield_point('submit')
        return fut

    def shutdown(self, wait=True):
        return None
