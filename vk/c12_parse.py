"""C12 - parsing always terminates (bounded work) and is repeatable.

Parts: (1) exhaustive strings of length <= 3 over the token alphabet and exhaustive short
multi-character-token strings; (2) token-level edits of every line of the repository's .kg
corpus (Hypothesis-chosen in the quick tier, complete single edits in thorough); (3) long
grammar-generated inputs.  Oracle: deterministic line-event budget B(n), structural equality of
two parses, no effect on variables, equal evaluation of first and re-parsed program.
DESIGN.md 3/C12.
"""
import glob
import itertools
import os
import re
import sys

from hypothesis import given, strategies as st

from . import core
from .canon import to_canon, ceq, show, snapshot

LEVEL = "exploration"
RULE = ("text from: all strings of length<=3 over a 39-character token alphabet (exhaustive), all strings made of 1-2 "
        "multi-character tokens interleaved with <=3 structural characters (exhaustive), token-level edits (delete / "
        "insert / replace / swap / truncate, single and double) of the lines of the repository's .kg corpus, and "
        "grammar-generated long nestings, and a soak part (one interpreter parses ~1600 well-formed and malformed texts per shard and must keep parsing probe texts like a fresh one); each parsed twice by KlongInterpreter.prog under a sys.settrace line-event "
        "budget B(n)=20000+2000n+20n^2 counted inside klongpy/parser.py and klongpy/interpreter.py; non-trivial = the "
        "parse consumed more than one token (text has >=2 lexical tokens) and, for edits, the text is not itself a corpus "
        "line; distinct by text")
ASSUMPTIONS = [
    "work measure = Python 'line' trace events inside klongpy/parser.py and klongpy/interpreter.py (deterministic)",
    "budget B(n) = 20000 + 2000 n + 20 n^2 line events is the fixed polynomial of the statement (measured head-room ~45x)",
    "work done outside Python code (a regular expression, a C loop) produces no trace events: every shard runs under a parent-side "
    "watchdog; a case that shows no progress for 90 s is re-parsed untraced in its own process and is a violation only if it "
    "still runs after 60 s there (the whole budget B(4096) costs a few seconds at untraced speed)",
    "evaluation comparison only for programs that reference no system function/variable (names starting with '.'); "
    "an evaluation that exceeds its own budget or 3 s is skipped (run-time loops are not this property's concern)",
]

ALPHABET = list('a1x.:;()[]{}"\'\\/~*+-,@#$%&|!?=<>_^ \n0ce')
MULTI = [':[', ':|', ':{', '::', ':"', '0c', '.comment(', '\\~', '\\*', ":'", ':\\', ':/', ':~', ':*', "@'", '.module(']
STRUCT = list('"()[]{};:\' a')


def B(n):
    return 20000 + 2000 * n + 20 * n * n


class BudgetExceeded(BaseException):
    pass


_FILES = {}


def traced_files(extra=()):
    key = tuple(extra)
    if key not in _FILES:
        base = os.path.join(core.REPO_DIR, 'klongpy')
        names = ['parser.py', 'interpreter.py'] + list(extra)
        _FILES[key] = {os.path.join(base, n) for n in names} | {os.path.realpath(os.path.join(base, n)) for n in names}
    return _FILES[key]


def run_budgeted(fn, limit, files):
    """Run fn() counting line events in `files`; returns ('ok', value) | ('err', ExcName) | ('budget', n)."""
    cnt = [0]

    def local(frame, event, arg):
        if event == 'line':
            cnt[0] += 1
            if cnt[0] > limit:
                raise BudgetExceeded()
        return local

    def glob_(frame, event, arg):
        if frame.f_code.co_filename in files:
            return local
        return None

    old = sys.gettrace()
    sys.settrace(glob_)
    try:
        try:
            v = fn()
            return ('ok', v), cnt[0]
        except BudgetExceeded:
            return ('budget', cnt[0]), cnt[0]
        except RecursionError:
            return ('err', 'RecursionError'), cnt[0]
        except Exception as e:
            return ('err', type(e).__name__), cnt[0]
    finally:
        sys.settrace(old)


# ----------------------------------------------------------------------------- structural comparison

_ADDR = re.compile(r'0x[0-9a-f]+')   # object addresses inside reprs of malformed programs are not observable state


def _noaddr(c):
    if c[0] in 'sy':
        return (c[0], _ADDR.sub('0x', c[1]))
    if c[0] == 'l':
        return ('l', tuple(_noaddr(x) for x in c[1]))
    return c


def struct(x, depth=0):
    """Hashable structural summary of a parsed program."""
    from klongpy.core import KGFn, KGCall, KGOp, KGAdverb, KGCond, KGSym, KGChar, KGLambda
    from klongpy.parser import KGExprArray
    import numpy as np
    if depth > 400:
        return ('deep',)
    if x is None:
        return ('none',)
    if isinstance(x, KGCall):
        return ('call', struct(x.a, depth + 1), struct(x.args, depth + 1), x.arity)
    if isinstance(x, KGFn):
        return ('fn', struct(x.a, depth + 1), struct(x.args, depth + 1), x.arity)
    if isinstance(x, KGOp):
        return ('op', x.a, x.arity)
    if isinstance(x, KGAdverb):
        return ('adv', struct(x.a, depth + 1), x.arity)
    if isinstance(x, KGCond):
        return ('cond',) + tuple(struct(y, depth + 1) for y in x)
    if isinstance(x, KGExprArray):
        return ('exprarray',) + tuple(struct(y, depth + 1) for y in x)
    if isinstance(x, KGLambda):
        return ('lambda', getattr(x.fn, '__name__', '?'))
    if isinstance(x, KGSym):
        return ('sym', _ADDR.sub('0x', str(x)))
    if isinstance(x, KGChar):
        return ('char', str(x))
    if isinstance(x, str):
        return ('str', _ADDR.sub('0x', x))
    if isinstance(x, (bool, int, float)):
        return ('num', type(x).__name__, repr(x))
    if isinstance(x, np.ndarray):
        return ('arr', to_canon(x))
    if isinstance(x, list):
        return ('list',) + tuple(struct(y, depth + 1) for y in x)
    if isinstance(x, dict):
        return ('dict',) + tuple((struct(k, depth + 1), struct(v, depth + 1)) for k, v in x.items())
    return ('other', type(x).__name__)


def sys_syms(x, acc=None, depth=0):
    """All symbols in a parsed program that start with '.' (system functions/variables) + lambdas."""
    from klongpy.core import KGFn, KGOp, KGAdverb, KGSym, KGLambda
    acc = set() if acc is None else acc
    if depth > 400:
        acc.add('.deep')
        return acc
    if isinstance(x, KGSym):
        if str(x).startswith('.'):
            acc.add(str(x))
    elif isinstance(x, KGFn):
        sys_syms(x.a, acc, depth + 1)
        sys_syms(x.args, acc, depth + 1)
    elif isinstance(x, KGAdverb):
        sys_syms(x.a, acc, depth + 1)
    elif isinstance(x, KGOp):
        if x.a in ('∇', '∂', ':>'):
            acc.add('.grad')
    elif isinstance(x, (list, tuple)):
        for y in x:
            sys_syms(y, acc, depth + 1)
    elif isinstance(x, dict):
        for k, v in x.items():
            sys_syms(k, acc, depth + 1)
            sys_syms(v, acc, depth + 1)
    elif isinstance(x, KGLambda):
        pass
    elif hasattr(x, 'dtype') and getattr(x, 'dtype', None) == object:
        for y in x.ravel().tolist():
            sys_syms(y, acc, depth + 1)
    return acc


TOKEN_RE = re.compile(r'''"(?:[^"]|"")*"?|0c.|\.[a-z]+\(|[0-9]+(?:\.[0-9]+)?(?:e[-+]?[0-9]+)?|[A-Za-z][A-Za-z0-9.]*|::|:\[|:\||:\{|:"|:'|:\\|:/|:~|:\*|\\~|\\\*|@'|:[A-Za-z#$%&+\-=<>^_@!]|\s+|.''', re.S)


def tokens(text):
    return [t for t in TOKEN_RE.findall(text)]


def ntokens(text):
    return sum(1 for t in tokens(text) if not t.isspace())


# ----------------------------------------------------------------------------- the check of one text

def new_interp():
    from klongpy import KlongInterpreter
    import klongpy.types as kt
    if not getattr(kt, '_vk_repr', False):
        # malformed programs can turn parser objects into data; their default repr holds an object
        # address, which is not program-observable state - give them address-free reprs (display only)
        for cls in (kt.KGOp, kt.KGAdverb, kt.KGFn, kt.KGLambda, kt.KGChannel, kt.KGFnWrapper):
            cls.__repr__ = lambda self: '<%s>' % type(self).__name__
        kt._vk_repr = True
    return KlongInterpreter()


def check_text(text, do_eval=True):
    """Return list of (kind, expected, observed) failures for one text (empty = holds)."""
    core.heartbeat(text)
    fails = []
    k = new_interp()
    files = traced_files()
    before = snapshot(k)
    mod0 = k._module
    limit = B(len(text))
    r1, n1 = run_budgeted(lambda: k.prog(text), limit, files)
    if r1[0] == 'budget':
        return [('budget', f'<= {limit} line events for length {len(text)}', f'exceeded ({n1})')], {'work': n1}
    k._module = mod0
    r2, n2 = run_budgeted(lambda: k.prog(text), limit, files)
    if r2[0] == 'budget':
        return [('budget-second-parse', f'<= {limit}', f'exceeded ({n2})')], {'work': n2}
    info = {'work': max(n1, n2), 'parsed': r1[0] == 'ok'}
    if r1[0] != r2[0] or (r1[0] == 'err' and r1[1] != r2[1]):
        fails.append(('repeat-outcome', str(r1[:2])[:100], str(r2[:2])[:100]))
        return fails, info
    if n1 != n2:
        # same text, same module, same interpreter: the amount of parser work must be identical too
        fails.append(('repeat-work', n1, n2))
    after = snapshot(k)
    if after != before:
        fails.append(('parse-changed-variables', sorted(before), sorted(after)))
    if r1[0] == 'ok':
        (i1, p1), (i2, p2) = r1[1], r2[1]
        try:
            s1, s2 = struct(p1), struct(p2)
        except RecursionError:
            s1 = s2 = None
        if i1 != i2 or s1 != s2:
            fails.append(('repeat-structure', repr(s1)[:200], repr(s2)[:200]))
            return fails, info
        if do_eval and p1:
            try:
                ss = sys_syms(p1)
            except RecursionError:
                ss = {'.deep'}
            if not ss:
                info['evaluated'] = True
                ev = eval_compare(k, p1, p2)
                if ev is not None:
                    if ev[0] == 'skip':
                        info['evaluated'] = False
                    else:
                        fails.append(ev)
    return fails, info


def eval_compare(k, p1, p2):
    """Evaluate first parse in k and the re-parsed program in a fresh interpreter."""
    files = traced_files(('adverbs.py', 'dyads.py', 'monads.py'))
    k2 = new_interp()

    def ev(kk, prog):
        out = []
        for y in prog:
            try:
                out.append(('val', _noaddr(to_canon(kk.call(y)))))
            except RecursionError:
                out.append(('err', 'RecursionError'))
            except MemoryError:
                out.append(('err', 'MemoryError'))
            except Exception as e:
                out.append(('err', type(e).__name__))
        return out
    try:
        with core.case_timeout(3):
            a, na = run_budgeted(lambda: ev(k, p1), 300000, files)
            if a[0] != 'ok':
                return ('skip',)
            b, nb = run_budgeted(lambda: ev(k2, p2), 300000, files)
            if b[0] != 'ok':
                return ('skip',)
    except core.CaseTimeout:
        return ('skip',)
    for x, y in zip(a[1], b[1]):
        if x[0] != y[0] or (x[0] == 'val' and not ceq(x[1], y[1], rtol=1e-12, atol=0)) or (x[0] == 'err' and x[1] != y[1]):
            return ('eval-differs', _so(x), _so(y))
    return None


def _so(o):
    return (o[0] + ':' + show(o[1])[:120]) if o[0] == 'val' else o[0] + ':' + str(o[1])


def ddmin(text, pred, max_steps=400):
    """Greedy character-deletion minimisation of a failing text (pred(text) -> bool)."""
    steps = 0
    chunk = max(1, len(text) // 2)
    while chunk >= 1 and steps < max_steps:
        i = 0
        changed = False
        while i < len(text) and steps < max_steps:
            cand = text[:i] + text[i + chunk:]
            steps += 1
            if cand != text and pred(cand):
                text = cand
                changed = True
            else:
                i += chunk
        if not changed:
            chunk //= 2
    return text


def judge(stats, report, text, source, corpus_set=None, do_eval=True):
    fails, info = check_text(text, do_eval=do_eval)
    nt = ntokens(text)
    cls = ['src:' + source, 'parsed' if info.get('parsed') else 'rejected-by-parser']
    if info.get('evaluated'):
        cls.append('evaluated')
    if len(text) > 200:
        cls.append('long')
    nontriv = nt >= 2 and (corpus_set is None or text not in corpus_set)
    stats.case(text, nontrivial=nontriv, classes=cls, sample={"source": source, "text": text[:120], "work": info.get('work')})
    w = info.get('work') or 0
    ratio = w / B(len(text))
    if (ratio, text[:80]) > stats.extra.get('max_budget_fraction', (0, '')):
        stats.extra['max_budget_fraction'] = (ratio, text[:80])
    if fails:
        kind = fails[0][0]

        def pred(t):
            f, _ = check_text(t, do_eval=do_eval)
            return bool(f) and f[0][0] == kind
        small = ddmin(text, pred) if len(text) <= 400 else text[:200]
        if len(small) > 60:
            small = small[:60] + '...'
        report(f"{kind}/{small!r}", {"text": text, "minimised": small, "source": source},
               expected=fails[0][1], observed=fails[0][2])


# ----------------------------------------------------------------------------- enumerations

def exhaustive_texts():
    yield ''
    for n in (1, 2, 3):
        for tup in itertools.product(ALPHABET, repeat=n):
            yield ''.join(tup)


def multi_texts():
    """1-2 multi-character tokens interleaved with up to three structural characters, every position."""
    seen = set()
    for toks in itertools.chain(((m,) for m in MULTI), itertools.product(MULTI, repeat=2)):
        slots = len(toks) + 1
        # distribute 0..3 structural chars over the slots
        for nchars in range(0, 4 if len(toks) == 1 else 3):
            for chars in itertools.product(STRUCT, repeat=nchars):
                for pos in itertools.combinations_with_replacement(range(slots), nchars):
                    parts = [''] * slots
                    for c, p in zip(chars, pos):
                        parts[p] += c
                    s = parts[0]
                    for t, p in zip(toks, parts[1:]):
                        s += t + p
                    if s not in seen:
                        seen.add(s)
                        yield s


def enum_shard(which, idx, nshards):
    stats = core.Stats()

    def report(fkey, case, expected=None, observed=None, note=None):
        stats.fail(fkey, case, expected, observed, note)
    gen = exhaustive_texts() if which == 'len3' else multi_texts()
    for n, text in enumerate(gen):
        if n % nshards != idx:
            continue
        judge(stats, report, text, which, do_eval=(which == 'len3'))
    return stats


# ----------------------------------------------------------------------------- corpus edits

_CORPUS = {}


def corpus():
    if 'lines' in _CORPUS:
        return _CORPUS['lines']
    lines = []
    seen = set()
    files = sorted(glob.glob(os.path.join(core.REPO_DIR, '**', '*.kg'), recursive=True))
    for f in files:
        try:
            with open(f, encoding='utf-8', errors='replace') as fh:
                ls = fh.read().split('\n')
        except OSError:
            continue
        generated = len(ls) > 3000
        if generated:
            ls = ls[::max(1, len(ls) // 300)]
        for l in ls:
            l = l.rstrip()
            if l and len(l) <= 200 and l not in seen:
                seen.add(l)
                lines.append(l)
    _CORPUS['lines'] = lines
    _CORPUS['set'] = seen
    toks = {}
    for l in lines:
        for t in tokens(l):
            if not t.isspace() and len(t) <= 12:
                toks[t] = toks.get(t, 0) + 1
    common = [t for t, _ in sorted(toks.items(), key=lambda kv: (-kv[1], kv[0]))[:60]]
    _CORPUS['tokens'] = sorted(set(common) | set(MULTI) | set('()[]{};:"\'') | {' ', '\n', '""', '0c', '.comment("")', ':"'})
    return lines


def apply_edit(toks, edit):
    kind, pos, tok = edit
    toks = list(toks)
    if not toks:
        return [tok] if kind in ('insert', 'replace') else toks
    pos = pos % (len(toks) + (1 if kind == 'insert' else 0))
    if kind == 'delete':
        del toks[pos]
    elif kind == 'insert':
        toks.insert(pos, tok)
    elif kind == 'replace':
        toks[pos] = tok
    elif kind == 'swap':
        if pos + 1 < len(toks):
            toks[pos], toks[pos + 1] = toks[pos + 1], toks[pos]
    elif kind == 'truncate':
        toks = toks[:pos]
    elif kind == 'dup':
        toks.insert(pos, toks[pos])
    return toks


def edit_shard(seed_value, n):
    stats = core.Stats()
    lines = corpus()
    cset = _CORPUS['set']
    tokset = _CORPUS['tokens']
    f = core.Findings("C12")
    edit = st.tuples(st.sampled_from(['delete', 'insert', 'replace', 'swap', 'truncate', 'dup']),
                     st.integers(0, 80), st.sampled_from(tokset))

    def make_test(report):
        @given(st.integers(0, len(lines) - 1), st.lists(edit, min_size=1, max_size=2))
        def t(li, edits):
            toks = tokens(lines[li])
            for e in edits:
                toks = apply_edit(toks, e)
            judge(stats, report, ''.join(toks), 'edit%d' % len(edits), corpus_set=cset)
        return t
    core.hyp_collect(stats, make_test, seed_value, n, rounds=6, shrink=False, is_known=lambda k: f.match(k) is not None)
    return stats


def corpus_shard(idx, nshards):
    """Every corpus line unedited (baseline for the edits; also measures the budget head-room)."""
    stats = core.Stats()

    def report(fkey, case, expected=None, observed=None, note=None):
        stats.fail(fkey, case, expected, observed, note)
    for n, l in enumerate(corpus()):
        if n % nshards == idx:
            judge(stats, report, l, 'corpus')
    return stats


PROBES = ['1+2', 'f::{x+y}', '[1 2 [3 4]]', ':[a;b;c]', '{[a];a::x;a}(3)', '((((1))))', '"str""ing"', 'a::1;b::2']


def soak_shard(idx, nshards):
    """One long-lived interpreter parses a long stream of well-formed and malformed texts; at intervals a fixed set of probe
    texts must still parse to the program a fresh interpreter gives (parsing leaves no state behind, also when it fails)."""
    stats = core.Stats()
    files = traced_files()
    fresh = new_interp()
    base = {}
    for p_ in PROBES:
        r, _ = run_budgeted(lambda: fresh.prog(p_), B(len(p_)), files)
        base[p_] = ('ok', struct(r[1][1])) if r[0] == 'ok' else r[:2]
    k = new_interp()
    mod0 = k._module
    lines = [l for n, l in enumerate(corpus()) if n % nshards == idx][:400]
    fed = 0
    done = False
    for i, line in enumerate(lines):
        for text in (line[:max(1, len(line) // 2)], '(' * (1 + i % 5) + line, line + ')', line):
            core.heartbeat(text)
            k._module = mod0
            run_budgeted(lambda: k.prog(text), B(len(text)), files)
            fed += 1
            if fed % 40 == 0:
                for p_ in PROBES:
                    k._module = mod0
                    r, _ = run_budgeted(lambda: k.prog(p_), B(len(p_)), files)
                    got = ('ok', struct(r[1][1])) if r[0] == 'ok' else r[:2]
                    stats.case(('soak', idx, fed, p_), nontrivial=True, classes=['src:soak'],
                               sample={"source": "soak", "text": p_, "after_parses": fed})
                    if got != base[p_] and not done:
                        done = True
                        stats.fail('parse-depends-on-history/' + repr(p_), {"text": p_, "source": "soak", "after_parses": fed, "last_text": text[:200]},
                                   'the program a fresh interpreter gives: ' + repr(base[p_])[:150], repr(got)[:150])
    return stats


def single_edit_shard(idx, nshards, stride):
    """All single token-level edits of every corpus line (thorough; stride>1 samples deterministically)."""
    stats = core.Stats()
    lines = corpus()
    cset = _CORPUS['set']
    tokset = _CORPUS['tokens']

    def report(fkey, case, expected=None, observed=None, note=None):
        stats.fail(fkey, case, expected, observed, note)
    n = 0
    for l in lines:
        toks = tokens(l)
        for pos in range(len(toks) + 1):
            edits = [('delete', pos, ''), ('swap', pos, ''), ('truncate', pos, ''), ('dup', pos, '')]
            edits += [('insert', pos, t) for t in tokset] + [('replace', pos, t) for t in tokset]
            for e in edits:
                n += 1
                if n % nshards != idx or (n // nshards) % stride:
                    continue
                if e[0] != 'insert' and pos >= len(toks):
                    continue
                judge(stats, report, ''.join(apply_edit(toks, e)), 'edit1x', corpus_set=cset, do_eval=False)
    return stats


# ----------------------------------------------------------------------------- long inputs

def long_texts():
    out = []
    for d in (50, 120, 200):
        out.append('(' * d + '1' + ')' * d)
        out.append('[' * d + '1' + ']' * d)
        out.append('{' * d + 'x' + '}' * d)
        out.append(':[1;' * d + '2' + ';3]' * d)
        out.append('f(' * d + '1' + ')' * d)
        out.append('(' * d)
        out.append('[' * d)
        out.append('{' * d)
        out.append(':[' * d)
        out.append('1+' * d + '1')
        out.append('-' * d + '1')
        out.append("+/'" * (d // 3) + '[1 2]')
        out.append('"' + 'a""b' * d + '"')
        out.append(':"' + 'comment ""x"" ' * d + '"1')
        out.append(':"' + 'x' * d)
        out.append('a::' * d + '1')
        out.append('0c' * d)
        out.append(':{' + '[1 2] ' * d + '}')
        out.append(':{' * d)
        out.append('.comment("end")\n' + 'junk ( [ { " \n' * d + 'end\n1+1')
        out.append('.comment("end")' + 'x' * d)
        out.append('[;' * d + '1' + ']' * d)
        out.append("x:'" * d)
        out.append('1 2 3 ' * d)
        out.append('\n' * d + '1')
        out.append(';' * d)
        out.append(':|' * d)
        out.append('f(;' * d)
        out.append('{x}(' * d)
    return out


def long_shard(seed_value, n):
    stats = core.Stats()
    f = core.Findings("C12")
    base = long_texts()

    def report0(fkey, case, expected=None, observed=None, note=None):
        stats.fail(fkey, case, expected, observed, note)
    if seed_value % 1000 == 0:
        for t in base:
            judge(stats, report0, t, 'long-fixed', do_eval=False)
    pieces = ['(', ')', '[', ']', '{', '}', ':[', ';', ':|', '"', 'a', '1', ' ', '\n', '+', '-', "'", '/', '::', 'f(', ':{', '0c',
              ':"', 'x', ',', '.comment("e")', 'e', '1.5e3', ':sym', '@', "@'", '\\~', ':~']

    def make_test(report):
        @given(st.lists(st.tuples(st.sampled_from(pieces), st.integers(1, 40)), min_size=2, max_size=30))
        def t(parts):
            text = ''.join(p * r for p, r in parts)[:4096]
            judge(stats, report, text, 'long-gen', do_eval=False)
        return t
    core.hyp_collect(stats, make_test, seed_value, n, rounds=5, shrink=False, is_known=lambda k: f.match(k) is not None)
    return stats


def _atheris_deps():
    """directory holding an importable atheris (installed offline next to the checkout), or None"""
    import subprocess
    deps = os.path.join(os.path.dirname(os.path.dirname(os.path.abspath(__file__))), '.deps')
    probe = [sys.executable, '-c', 'import sys; sys.path.insert(0, sys.argv[1]); import atheris', deps]
    if subprocess.run(probe, capture_output=True).returncode == 0:
        return deps
    subprocess.run([sys.executable, '-m', 'pip', 'install', '-q', '--no-index', '--find-links', '/opt/veriftools/wheels',
                    '--target', deps, 'atheris'], capture_output=True)
    return deps if subprocess.run(probe, capture_output=True).returncode == 0 else None


def fuzz_campaign(run, runs, workers=16):
    """coverage-guided part (thorough tier): 16 libFuzzer processes, half from an empty corpus, half seeded with corpus lines"""
    import json
    import shutil
    import subprocess
    import tempfile
    deps = _atheris_deps()
    if deps is None:
        run.coverage_extra['atheris'] = 'not available (wheel could not be installed); part skipped'
        return
    root = tempfile.mkdtemp(prefix='vk_c12_fuzz_')
    here = os.path.dirname(os.path.dirname(os.path.abspath(__file__)))
    toks = sorted(set(MULTI + [':[', ';', ']', '{', '}', '(', ')', '"', '0c', ':"', "'", '/', '\\', '::', '.comment(', '.module(',
                               ':sym', '1.5e3', ':{[', '@', '~', ':|', '""', '"a"', '[]', '()', '{}', ':[1;2;3]', "'", ':#', ':=']))
    try:
        procs = []
        lines = corpus()
        for i in range(workers):
            out = os.path.join(root, f'out{i}')
            cdir = os.path.join(root, f'corpus{i}')
            os.makedirs(out)
            os.makedirs(cdir)
            if i % 2 == 1:
                for j, line in enumerate(lines[i::workers][:300]):
                    with open(os.path.join(cdir, f's{j}'), 'w') as f:
                        f.write(line)
            with open(os.path.join(out, 'tokens.dict'), 'w') as f:
                for j, t in enumerate(toks):
                    f.write('t%d="%s"\n' % (j, t.replace('\\', '\\\\').replace('"', '\\"')))
            env = dict(os.environ, PYTHONHASHSEED='0')
            procs.append((out, subprocess.Popen([sys.executable, '-m', 'vk.c12_fuzz', out, cdir, str(runs), str(run.seed * 100 + i + 1), deps],
                                                cwd=here, env=env, stdout=subprocess.DEVNULL, stderr=subprocess.DEVNULL)))
        for out, pr in procs:
            try:
                pr.wait(timeout=3600)
            except subprocess.TimeoutExpired:
                pr.kill()
        total = {"execs": 0, "nontrivial": 0, "parsed": 0, "failures": 0, "max_len": 0, "max_fraction": 0.0, "workers": workers,
                 "runs_per_worker": runs}
        stats = core.Stats()
        f = core.Findings("C12")

        def report(fkey, case, expected=None, observed=None, note=None):
            stats.fail(fkey, case, expected, observed, note)
        for out, pr in procs:
            try:
                c = json.load(open(os.path.join(out, 'stats.json')))
            except Exception:
                continue
            for k in ('execs', 'nontrivial', 'parsed', 'failures'):
                total[k] += c.get(k, 0)
            total['max_len'] = max(total['max_len'], c.get('max_len', 0))
            total['max_fraction'] = max(total['max_fraction'], c.get('max_fraction', 0.0))
            for fn in sorted(glob.glob(os.path.join(out, 'fail-*.json'))):
                j = json.load(open(fn))
                judge(stats, report, j['text'], 'atheris', do_eval=False)     # re-checked and minimised by the common path
        run.absorb(stats)
        run.coverage_extra['atheris'] = total
    finally:
        shutil.rmtree(root, ignore_errors=True)


def confirm_hang(stats, text):
    """a worker was stuck in one text for more than 90 s: parse it once more, untraced, in a process of its own with a 60 s
    limit (the whole work budget B(n) costs a few seconds at untraced speed); only a second overrun is a violation"""
    import subprocess
    if sum(1 for k in stats.failures if k.startswith('no-termination/')) >= 2:
        # two confirmed cases are on record: further stuck jobs are only counted (each confirmation costs a minute)
        stats.extra['stuck_jobs_not_confirmed'] = stats.extra.get('stuck_jobs_not_confirmed', 0) + 1
        return
    prog = ("import sys; sys.path.insert(0, sys.argv[1]); from klongpy import KlongInterpreter\n"
            "t = sys.stdin.read()\n"
            "try:\n    KlongInterpreter().prog(t)\nexcept Exception:\n    pass\n")
    try:
        subprocess.run([sys.executable, '-c', prog, core.REPO_DIR], input=text.encode(), timeout=60, capture_output=True)
        stats.extra['slow_but_finished'] = stats.extra.get('slow_but_finished', 0) + 1
    except subprocess.TimeoutExpired:
        stats.fail('no-termination/wallclock/' + repr(text[:40]), {"text": text, "source": "watchdog"},
                   f'parse of {len(text)} characters finishes within the work budget',
                   'no trace events for 90 s in the worker and still running after 60 s in a process of its own '
                   '(the time is spent outside Python code, e.g. inside a regular expression)')


def check(run):
    quick = run.tier == 'quick'
    S = run.seed * 1000
    wd = lambda fname, jobs: core.watchdog_map('vk.c12_parse', fname, jobs, confirm_hang)
    run.absorb(wd('enum_shard', [('len3', i, 16) for i in range(16)]))
    run.absorb(wd('enum_shard', [('multi', i, 16) for i in range(16)]))
    run.absorb(wd('corpus_shard', [(i, 16) for i in range(16)]))
    run.absorb(wd('soak_shard', [(i, 16) for i in range(16)]))
    run.absorb(wd('edit_shard', [(S + i, 1200 if quick else 20000) for i in range(16)]))
    run.absorb(wd('long_shard', [(S + i, 60 if quick else 2000) for i in range(16)]))
    if not quick:
        run.absorb(wd('single_edit_shard', [(i, 16, 4) for i in range(16)]))
        fuzz_campaign(run, runs=int(os.environ.get('VK_C12_FUZZ_RUNS', '30000')))
    run.exhaustive = True
    run.coverage_extra['exhaustive_parts'] = ['all strings of length<=3 over the 39-character alphabet',
                                              '1-2 multi-character tokens x <=3 structural characters']
    run.coverage_extra['corpus_lines'] = len(corpus())
    run.min_class_fraction = {'parsed': 0.05, 'evaluated': 0.01}


def replay(case):
    fails, info = check_text(case["text"])
    return [(f[0], f[1], f[2]) for f in fails]
