"""C20 - web routes and websocket messages reach their Klong handler exactly once, intact.

Web: generated route tables (GET / POST, named and anonymous handlers, handlers that fail in three ways) are served by the
real .web on a loopback port of a real repl; generated request sequences (registered and unknown paths, wrong method,
parameter dictionaries needing URL encoding, handler redefinition between requests) are issued with http.client and
compared with a model: status, body, and a call log written by the handlers.  Websocket: a harness websockets server
pushes generated JSON messages to the real .ws client and receives what the client sends.  DESIGN.md 3/C20.
"""
import asyncio
import http.client
import json
import threading
import time
import urllib.parse

from hypothesis import given, strategies as st

from . import core
from .canon import to_canon, ceq, render, show, I, R, S, LL, D, U

LEVEL = "exploration"
RULE = ("web: route table of <= 3 GET and <= 3 POST routes over 4 paths (handlers bound to a symbol or anonymous; returning a "
        "string, a number, or failing with a type error / an undefined function / an index error) x sequence of <= 8 steps: "
        "request (GET/POST, registered or unknown path, parameter dictionary with empty values, blanks, &, =, %, +, non-ASCII) or "
        "redefinition of a named handler; then .webc and a connection attempt; non-trivial = a request with parameters, a failing "
        "handler, an unknown path / wrong method, or a request after a redefinition. websocket: sequence of <= 8 steps: server "
        "pushes a JSON value (all kinds incl. null, false, 0, empty string/list/object), client sends a Klong value or computed "
        "value, .ws.m is redefined; non-trivial = anything but a push of a non-empty scalar; distinct by (table, sequence)")
ASSUMPTIONS = [
    "a handler logs its tag and the dictionary it received through a Python function before it computes its result, so 'invoked "
    "exactly once with exactly these parameters' is read from the log",
    "a route registered from a named function follows redefinitions of that name (KGFnWrapper's documented dynamic resolution); an "
    "anonymous handler is fixed",
    "unknown path -> 404 and wrong method -> 405 are aiohttp's answers; the property only requires that no handler runs",
    "pushed JSON is compared with what .ws.m receives after canonicalisation (true/false are 1/0, null is undefined); sent values are "
    "compared as parsed JSON",
]

PATHS = ['/', '/a', '/b/c', '/long/path']
NAMES = ['h1', 'h2', 'h3']
BODIES = {
    'str': lambda tag: '"' + tag + '"',
    'num': lambda tag: '42',
    'fail-type': lambda tag: '1+"a"',
    'fail-klong': lambda tag: 'nosuchfn(1)',
    'fail-index': lambda tag: '[1 2]@9',
}
PKEYS = ['a', 'b', 'k1', 'é', 'key with space', 'x&y', 'q=r', '%41', '']
PVALS = ['', '1', 'x y', 'a&b=c', 'ü€', '%20', '+', 'line\nbreak', 'plain']

_G = {}


def quiet():
    import logging
    import os
    import sys
    logging.disable(logging.CRITICAL)
    sys.stderr = open(os.devnull, 'w')
    sys.stdout = open(os.devnull, 'w')


def repl():
    if 'k' not in _G:
        core.setup_repo_path()
        from klongpy.repl import create_repl
        k, loops = create_repl()
        _G['k'], _G['loops'] = k, loops
        _G['calls'] = []
        k['rec'] = lambda x, y: (_G['calls'].append((x, y)), 1)[1]
        k('.py("klongpy.web")')
        k('.py("klongpy.ws")')
    return _G['k']


# ------------------------------------------------------------------ web

def handler_text(tag, body):
    return '{rec("' + tag + '";x);' + BODIES[body](tag) + '}'


def http_request(port, method, path, params):
    c = http.client.HTTPConnection('127.0.0.1', port, timeout=10)
    try:
        if method == 'GET':
            q = ('?' + urllib.parse.urlencode(params)) if params else ''
            c.request('GET', urllib.parse.quote(path) + q)
        else:
            c.request('POST', urllib.parse.quote(path), body=urllib.parse.urlencode(params),
                      headers={'Content-Type': 'application/x-www-form-urlencoded'})
        r = c.getresponse()
        return r.status, r.read().decode('utf-8', 'replace')
    finally:
        c.close()


def run_web(table, steps, stats, report):
    """table: {'GET': [(path, ('named', name, body) | ('anon', tag, body))], 'POST': [...]}; steps: requests / redefinitions"""
    from .netharness import free_port, wait_listening
    k = repl()
    calls = _G['calls']
    del calls[:]
    version = {n: 0 for n in NAMES}
    current = {}                          # name -> (tag, body)
    for n in NAMES:
        tag = f'{n}.v0'
        current[n] = (tag, 'str')
    # initial bodies of named handlers come from the table (first use wins)
    for method in ('GET', 'POST'):
        for path, h in table[method]:
            if h[0] == 'named' and version[h[1]] == 0:
                current[h[1]] = (f'{h[1]}.v0', h[2])
                version[h[1]] = 1
    for n in NAMES:
        k(n + '::' + handler_text(*current[n]))
    k('get:::{};post:::{}')
    routes = {}
    for method, var in (('GET', 'get'), ('POST', 'post')):
        for path, h in table[method]:
            if h[0] == 'named':
                k(f'{var},(,"{path}"),{h[1]}')
                routes[(method, path)] = ('named', h[1])
            else:
                k(f'{var},(,"{path}"),' + handler_text(h[1], h[2]))
                routes[(method, path)] = ('anon', h[1], h[2])
    port = free_port()
    k(f'wh::.web("127.0.0.1:{port}";get;post)')
    wait_listening(port)
    case = {"table": table, "steps": steps}
    redefined = set()
    try:
        for i, step in enumerate(steps):
            if step[0] == 'redef':
                _, name, body = step
                version[name] += 1
                current[name] = (f'{name}.v{version[name]}', body)
                k(name + '::' + handler_text(*current[name]))
                redefined.add(name)
                continue
            method, path, params = step
            params = dict(params)
            before = len(calls)
            try:
                status, text = http_request(port, method, path, params)
            except Exception as e:
                report('web/request-failed', dict(case, at=i), expected='an HTTP response', observed=type(e).__name__ + ': ' + str(e)[:80])
                return
            new = list(calls[before:])
            route = routes.get((method, path))
            classes = ['web', 'method:' + method]
            nontriv = bool(params)
            if route is None:
                classes.append('unknown path / wrong method')
                nontriv = True
                tag = body = None
            else:
                if route[0] == 'named':
                    tag, body = current[route[1]]
                    if route[1] in redefined:
                        classes.append('after redefinition')
                        nontriv = True
                else:
                    tag, body = route[1], route[2]
                classes.append('handler:' + body)
                if body.startswith('fail'):
                    nontriv = True
            if params:
                classes.append('with parameters')
            stats.case(('web', repr(table), repr(steps[:i + 1])), nontrivial=nontriv, classes=classes,
                       sample={"request": f'{method} {path} {params}', "handler": tag, "status": status, "body": text[:40]})
            key = 'web/' + method + '/'
            if route is None:
                if new:
                    report(key + 'unregistered-path-reached-a-handler', dict(case, at=i), expected='no handler call', observed=str(new)[:200])
                    return
                if status < 400:
                    report(key + 'unregistered-path-status', dict(case, at=i), expected='an error status', observed=f'{status} {text[:60]}')
                    return
                continue
            want_log = [(tag, params)]
            got_log = [(t, dict(d)) for t, d in new]
            if got_log != want_log:
                what = 'not-invoked' if not got_log else 'invoked-%d-times' % len(got_log) if len(got_log) > 1 else \
                    'wrong-handler' if got_log[0][0] != tag else 'wrong-parameters'
                report(key + what + '/' + body, dict(case, at=i), expected=str(want_log)[:300], observed=str(got_log)[:300])
                return
            if body.startswith('fail'):
                if status != 400:
                    report(key + 'failing-handler-status/' + body, dict(case, at=i), expected='400', observed=f'{status} {text[:60]}')
                    return
            else:
                want_text = tag if body == 'str' else '42'
                if status != 200 or text != want_text:
                    report(key + 'response/' + body, dict(case, at=i), expected=f'200 {want_text}', observed=f'{status} {text[:60]}')
                    return
    finally:
        try:
            closed = k('.webc(wh)')
        except Exception as e:
            closed = 'raised ' + type(e).__name__
    if closed != 1:
        report('web/webc-result', case, expected='1', observed=str(closed))
        try:
            asyncio.run_coroutine_threadsafe(k('wh').shutdown(), _G['loops'][0]).result(5)
        except Exception:
            pass
        return
    try:
        status, text = http_request(port, 'GET', '/', {})
        report('web/answers-after-webc', case, expected='connection refused', observed=f'{status} {text[:40]}')
    except (OSError, http.client.HTTPException):
        pass        # refused, or not an HTTP peer (a connect to a closed local port can connect the socket to itself)


def handlers():
    return st.one_of(
        st.tuples(st.just('named'), st.sampled_from(NAMES), st.sampled_from(['str', 'str', 'num', 'fail-type', 'fail-klong', 'fail-index'])),
        st.tuples(st.just('anon'), st.sampled_from(['anonA', 'anonB']), st.sampled_from(['str', 'num', 'fail-klong'])))


@st.composite
def web_cases(draw):
    table = {}
    for method in ('GET', 'POST'):
        paths = draw(st.lists(st.sampled_from(PATHS), max_size=3, unique=True))
        table[method] = [(p, draw(handlers())) for p in paths]
    # anonymous tags must be unique per route so the log identifies the route
    n = 0
    for method in ('GET', 'POST'):
        for i, (p, h) in enumerate(table[method]):
            if h[0] == 'anon':
                n += 1
                table[method][i] = (p, ('anon', f'anon{n}', h[2]))
    params = st.dictionaries(st.sampled_from(PKEYS), st.sampled_from(PVALS), max_size=3).map(lambda d: tuple(sorted(d.items())))
    anyreq = st.tuples(st.sampled_from(['GET', 'GET', 'POST']), st.sampled_from(PATHS + ['/nosuch', '/a/']), params)
    registered = [(m, p) for m in ('GET', 'POST') for p, _ in table[m]]
    if registered:
        hit = st.tuples(st.sampled_from(registered), params).map(lambda t: (t[0][0], t[0][1], t[1]))
        request = st.one_of(hit, hit, hit, anyreq)
    else:
        request = anyreq
    used = sorted({h[1] for m in ('GET', 'POST') for _, h in table[m] if h[0] == 'named'}) or NAMES
    redef = st.tuples(st.just('redef'), st.sampled_from(used), st.sampled_from(['str', 'num', 'fail-klong', 'fail-type']))
    steps = draw(st.lists(st.one_of(request, request, request, redef), min_size=1, max_size=8))
    return table, steps


def web_shard(seed_value, n):
    quiet()
    stats = core.Stats()
    f = core.Findings("C20")

    def make_test(report):
        @given(web_cases())
        def t(c):
            run_web(c[0], c[1], stats, report)
        return t
    core.hyp_collect(stats, make_test, seed_value, n, rounds=8, is_known=lambda k: f.match(k) is not None)
    return stats


# ------------------------------------------------------------------ websocket

class WSServer:
    """harness websockets server: one connection at a time; records what it receives"""

    def __init__(self):
        from .netharness import LoopThread, free_port
        import websockets
        self.lt = LoopThread()
        self.port = free_port()
        self.conn = None
        self.connected = threading.Event()
        self.received = []
        self.cond = threading.Condition()

        async def handler(ws, *a):
            self.conn = ws
            self.connected.set()
            try:
                async for m in ws:
                    with self.cond:
                        self.received.append(m)
                        self.cond.notify_all()
            except Exception:
                pass

        async def start():
            return await websockets.serve(handler, '127.0.0.1', self.port)
        self.server = self.lt.run(start())

    def push(self, text):
        async def go():
            await self.conn.send(text)
        self.lt.run(go())

    def burst(self, texts, close):
        async def go():
            for t in texts:
                await self.conn.send(t)
            if close:
                await self.conn.close()
        self.lt.run(go())

    def wait_received(self, n, timeout=5.0):
        t0 = time.time()
        with self.cond:
            while len(self.received) < n:
                left = timeout - (time.time() - t0)
                if left <= 0:
                    return False
                self.cond.wait(left)
        return True


def ws_env():
    if 'ws' not in _G:
        repl()
        _G['ws'] = WSServer()
        _G['wslog'] = []
        _G['wscond'] = threading.Condition()

        def wrec(x, y):
            with _G['wscond']:
                _G['wslog'].append((x, y))
                _G['wscond'].notify_all()
            return 1
        _G['k']['wrec'] = wrec
    return _G['ws']


def json_canon(v):
    """canonical form of a JSON value as Klong should see it"""
    if v is None:
        return U
    if isinstance(v, bool):
        return I(int(v))
    if isinstance(v, int):
        return I(v)
    if isinstance(v, float):
        return R(v)
    if isinstance(v, str):
        return S(v)
    if isinstance(v, list):
        return LL([json_canon(x) for x in v])
    return D([(json_canon(a), json_canon(b)) for a, b in v.items()])


def canon_json(c):
    t = c[0]
    if t in 'irs':
        return c[1]
    if t == 'c':
        return c[1]
    if t == 'l':
        return [canon_json(x) for x in c[1]]
    if t == 'd':
        return {str(canon_json(a)): canon_json(b) for a, b in c[1]}
    raise ValueError(c)


def run_ws(steps, stats, report):
    srv = ws_env()
    k = _G['k']
    log = _G['wslog']
    del log[:]
    del srv.received[:]
    srv.connected.clear()
    k('.ws.m::{wrec("m0";y);x}')
    k(f'c::.ws("ws://127.0.0.1:{srv.port}")')
    if not srv.connected.wait(5):
        raise core.HarnessError("websocket client did not connect")
    case = {"steps": steps}
    tagv = 0
    expected_log = []
    expected_recv = []
    try:
        for i, step in enumerate(steps):
            kind = step[0]
            if kind == 'push':
                value = json.loads(step[1])
                expected_log.append((f'm{tagv}', json_canon(value)))
                srv.push(step[1])
                falsy = value in (None, False, 0, '', [], {}) or value == 0.0
                stats.case(('ws', repr(steps[:i + 1])), nontrivial=falsy or isinstance(value, (list, dict)) or i > 0,
                           classes=['ws', 'push', 'json:' + type(value).__name__] + (['falsy message'] if falsy else []),
                           sample={"push": step[1][:60]})
                # the message must reach .ws.m (exactly once, in order): wait for the log to grow
                t0 = time.time()
                ndkey = 'falsy' if falsy else type(value).__name__
                patience = 0.3 if ndkey in _G.setdefault('nd_seen', set()) else 2.0     # a miss already seen here: do not wait long again
                with _G['wscond']:
                    while len(log) < len(expected_log) and time.time() - t0 < patience:
                        _G['wscond'].wait(0.05)
                if len(log) < len(expected_log):
                    _G['nd_seen'].add(ndkey)
                    report('ws/push/not-delivered/' + ('falsy' if falsy else type(value).__name__), dict(case, at=i),
                           expected=f'.ws.m called with {step[1][:60]}', observed='no call within 2 s')
                    return
            elif kind == 'burst':
                # several messages back to back, optionally followed at once by the server closing the connection:
                # everything sent before the close must still reach .ws.m, in order
                values = [json.loads(t) for t in step[1]]
                for v in values:
                    expected_log.append((f'm{tagv}', json_canon(v)))
                stats.case(('ws', repr(steps[:i + 1])), nontrivial=True,
                           classes=['ws', 'burst'] + (['burst then close'] if step[2] else []), sample={"burst": list(step[1])[:4], "close": step[2]})
                srv.burst(list(step[1]), step[2])
                t0 = time.time()
                with _G['wscond']:
                    while len(log) < len(expected_log) and time.time() - t0 < 3:
                        _G['wscond'].wait(0.05)
                if len(log) < len(expected_log):
                    report('ws/burst/not-delivered/' + ('then-close' if step[2] else 'open'), dict(case, at=i),
                           expected=f'{len(expected_log)} calls of .ws.m', observed=f'{len(log)} within 3 s')
                    return
                if step[2]:
                    break
            elif kind == 'send':
                text = step[1]
                want = json.loads(step[2])
                expected_recv.append(want)
                stats.case(('ws', repr(steps[:i + 1])), nontrivial=True, classes=['ws', 'send', 'send:' + step[3]], sample={"send": text[:60]})
                try:
                    k('c(' + text + ')')
                except Exception as e:
                    report('ws/send/raised/' + step[3], dict(case, at=i), expected=f'JSON {step[2][:60]} arrives', observed=type(e).__name__ + ': ' + str(e)[:60])
                    return
                if not srv.wait_received(len(expected_recv)):
                    report('ws/send/not-delivered/' + step[3], dict(case, at=i), expected=f'JSON {step[2][:60]} arrives', observed='nothing within 5 s')
                    return
            else:
                tagv += 1
                k('.ws.m::{wrec("m%d";y);x}' % tagv)
        time.sleep(0.02)
        got_log = [(t, to_canon(v)) for t, v in log]
        if len(got_log) != len(expected_log):
            report('ws/push/count', case, expected=f'{len(expected_log)} calls of .ws.m', observed=f'{len(got_log)}: {got_log}'[:300])
            return
        for (et, ev), (gt, gv) in zip(expected_log, got_log):
            if et != gt:
                report('ws/push/handler-version', case, expected=et, observed=gt)
                return
            if not ceq(ev, gv, match=True):
                kind = 'mixed-list' if ev[0] == 'l' and len({x[0] for x in ev[1]}) > 1 else ev[0]
                report('ws/push/value/' + kind, case, expected=show(ev), observed=show(gv))
                return
        got_recv = []
        for m in srv.received:
            try:
                got_recv.append(json.loads(m))
            except Exception:
                got_recv.append(('not json', str(m)[:40]))
        if got_recv != expected_recv:
            report('ws/send/value', case, expected=str(expected_recv)[:300], observed=str(got_recv)[:300])
    finally:
        try:
            k('.wsc(c)')
        except Exception:
            pass


def json_values():
    leaf = st.one_of(st.none(), st.booleans(), st.integers(-5, 5), st.sampled_from([0, 0.0, 1.5, -2.25, 1e10]),
                     st.sampled_from(['', 'a', 'hello world', 'ü€', '"q"']))
    return st.recursive(leaf, lambda ch: st.one_of(st.lists(ch, max_size=3), st.dictionaries(st.sampled_from(['k', 'key 2', '']), ch, max_size=2)),
                        max_leaves=6)


SEND_EXPRS = [('1+1', 2), ('+/[1 2 3]', 6), ('#"abc"', 3), ('2*[1 2]', [2, 4]), ('1.5*2', 3.0), ('[1 2],3', [1, 2, 3]), ('&/[3 4]', 3), ('!3', [0, 1, 2])]


@st.composite
def ws_cases(draw):
    from .c11_readwrite import values
    steps = []
    for _ in range(draw(st.integers(1, 8))):
        kind = draw(st.sampled_from(['push', 'push', 'push', 'send', 'send', 'redef']))
        if kind == 'push':
            steps.append(('push', json.dumps(draw(json_values()))))
        elif kind == 'send':
            if draw(st.booleans()):
                e, want = draw(st.sampled_from(SEND_EXPRS))
                steps.append(('send', e, json.dumps(want), 'computed'))
            else:
                v = draw(values(False).filter(lambda c: sendable(c)))
                steps.append(('send', render(v), json.dumps(canon_json(v)), 'literal'))
        else:
            steps.append(('redef',))
    if draw(st.sampled_from([False, False, True])):
        texts = tuple(json.dumps(draw(json_values())) for _ in range(draw(st.integers(2, 6))))
        steps.append(('burst', texts, draw(st.booleans())))
    return steps


def sendable(c):
    t = c[0]
    if t == 'i':
        return abs(c[1]) < 2 ** 53
    if t == 'r':
        return c[1] == c[1] and abs(c[1]) < 1e300
    if t in 'sc':
        return True
    if t == 'l':
        return all(sendable(x) for x in c[1])
    return False


def ws_shard(seed_value, n):
    quiet()
    stats = core.Stats()
    f = core.Findings("C20")

    def make_test(report):
        @given(ws_cases())
        def t(steps):
            run_ws(steps, stats, report)
        return t
    core.hyp_collect(stats, make_test, seed_value, n, rounds=8, is_known=lambda k: f.match(k) is not None)
    return stats


def shard(kind, a, b):
    return web_shard(a, b) if kind == 'web' else ws_shard(a, b)


def check(run):
    quick = run.tier == 'quick'
    jobs = [('web', run.seed * 1000 + i, 250 if quick else 4000) for i in range(8)]
    jobs += [('ws', run.seed * 1000 + 50 + i, 250 if quick else 4000) for i in range(8)]
    run.absorb(core.pool_map('vk.c20_web', 'shard', jobs))
    run.min_class_fraction = {'web': 0.1, 'ws': 0.1}


def replay(case):
    import contextlib
    import io
    with contextlib.redirect_stdout(io.StringIO()), contextlib.redirect_stderr(io.StringIO()):
        return _replay(case)


def _replay(case):
    out = []
    stats = core.Stats()

    def report(fkey, case_, expected=None, observed=None, note=None):
        out.append((fkey, expected, observed))

    def tup(o):
        return tuple(tup(x) if isinstance(x, list) else x for x in o)
    if 'table' in case:
        table = {m: [(p, tup(h)) for p, h in case['table'][m]] for m in ('GET', 'POST')}
        run_web(table, [tup(s) for s in case['steps']], stats, report)
    else:
        run_ws([tup(s) for s in case['steps']], stats, report)
    return out
