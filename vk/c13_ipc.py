"""C13 - remote evaluation over IPC equals evaluation on the server.

Part 1 (live): generated sequences of remote operations run through the real .srv/.cli/.clid entry points between two
real repls over loopback TCP; a twin interpreter applies the same operation locally.  Part 2 (framing): the byte stream
of 1-3 consecutive frames is cut into <= 3 reads in every possible way (short streams) or in generated ways (long
streams, including bodies above 64 KiB) and fed to a real asyncio.StreamReader read by stream_recv_msg.
DESIGN.md 3/C13.
"""
import asyncio
import itertools
import uuid

from hypothesis import given, strategies as st

from . import core
from .canon import to_canon, ceq, render, renderable, show, I, S, LL, U
from .c11_readwrite import values, atoms, to_py, nontrivial as value_nontrivial, has_dict_in_list

LEVEL = "exploration"
RULE = ("live: sequence of <= 10 remote operations - f(\"expr\") for literals / assignments / reads / undefined-valued "
        "expressions / function applications, f(:name), f([:fn args]) and f((,:fn),(,a),...) with 0-3 arguments, proxies "
        "q::f(:fn) and q::d?:fn applied to arguments (also after the function was redefined with another arity), remote "
        "dictionary set (list literal, join, function value) and get - over the value universe of C11 plus :undefined; "
        "non-trivial = the value is not an integer atom or the operation is a call / proxy / dictionary operation; "
        "framing: 1-3 frames, stream cut into <= 3 reads, non-trivial = a cut falls inside a frame; distinct by operation "
        "text / (frame sizes, cuts)")
ASSUMPTIONS = [
    "oracle: a twin interpreter evaluates the same operation locally (name(a;b), name::v, the expression text); results are compared "
    "canonically and kind-sensitively, including what :_ says about them; functions compare by arity",
    "a server-side error closes the connection by design, so an operation the twin predicts to fail is checked to raise at the "
    "client and the pair is then reconnected",
    "framing oracle: the decoded (id, message) sequence equals the sent one and nothing is left in the stream",
]

DATA = ['da', 'db', 'dc']       # not among the symbol values of the universe: klongpy resolves a symbol value that names a variable
FNS = {'id': 1, 'pair': 2, 'tri': 3, 'und': 1, 'isu': 1, 'cnt': 1, 'nil0': 0, 'flex': 1}
RESET = ('da::0;db::"s";dc::[1 2 3];id::{x};pair::{(,x),,y};tri::{(,x),(,y),,z};und::{x;1%0};isu::{:_x};cnt::{#x};'
         'nil0::{42};flex::{x};0')
FLEX = {1: 'flex::{x}', 2: 'flex::{(,y),,x}', 3: 'flex::{(,z),(,y),,x}'}

_S = {}


def state():
    # a fresh pair of repls every 400 sequences: closed connections leave subscriptions behind in the long-lived server
    # and client, which slows a long campaign down quadratically
    if 'pair' in _S and _S.get('uses', 0) >= _S.get('recycle_after', 10 ** 9):
        _S.pop('pair').close()
    if 'pair' not in _S:
        _S['uses'] = 0
        from .netharness import Pair
        from klongpy import KlongInterpreter
        _S['pair'] = Pair()
        _S['twin'] = KlongInterpreter()
        _S['flex'] = 1
    return _S['pair'], _S['twin']


def kstr(text):
    return '"' + text.replace('"', '""') + '"'


# ------------------------------------------------------------------ operations

UNDEF_EXPRS = ['1%0', ':{[1 2]}?3', '[1 2 3]@(1%0)'][:2]


def arg_text(v):
    """Klong expression text for an argument value (canonical, or the marker for undefined)"""
    return '(1%0)' if v == U else '(' + render(v) + ')'


def client_twin_text(op):
    """(client statement leaving the result in r, twin expression text) for an operation"""
    kind = op[0]
    if kind == 'eval':
        return 'r::f(' + kstr(op[1]) + ')', op[1]
    if kind == 'sym':
        return f'r::f(:{op[1]})', op[1]
    if kind == 'call':
        _, fn, args, style = op
        if style == 'literal':
            ct = 'r::f([' + ' '.join([':' + fn] + [render(a, True) for a in args]) + '])'
        else:
            ct = 'r::f(' + ','.join(['(,:' + fn + ')'] + ['(,' + arg_text(a) + ')' for a in args]) + ')'
        return ct, fn + '(' + ';'.join(arg_text(a) for a in args) + ')'
    if kind == 'proxy':
        _, via, fn, args = op
        get = f'q::f(:{fn})' if via == 'f' else f'q::d?:{fn}'
        call = '(' + ';'.join(arg_text(a) for a in args) + ')'
        return get + ';r::q' + call, fn + call
    if kind == 'dset':
        _, name, v, style = op
        if style == 'literal':
            return f'd,[:{name} ' + render(v, True) + '];r::0', f'{name}::' + render(v) + ';0'
        return f'd,:{name},,' + arg_text(v) + ';r::0', f'{name}::' + arg_text(v) + ';0'
    if kind == 'dsetfn':
        body = {1: '{x}', 2: '{(,y),,x}', 3: '{(,z),(,y),,x}'}[op[1]]
        return 'd,:flex,' + body + ';r::0', 'flex::' + body + ';0'
    if kind == 'dget':
        return f'r::d?:{op[1]}', op[1]
    if kind == 'redef':
        return 'r::f(' + kstr(FLEX[op[1]] + ';0') + ')', FLEX[op[1]] + ';0'
    raise ValueError(op)


def client_outcome(k, text):
    """run a client statement that leaves its result in r; ('ok', canon, :_r) / ('err', type name) / ('hang',)"""
    try:
        with core.case_timeout(20):
            k(text)
            r = k('r')
            u = to_canon(k(':_r'))
    except core.CaseTimeout:
        return ('hang',)
    except Exception as e:
        return ('err', type(e).__name__)
    if type(r).__name__ == 'KGRemoteFnRef':
        c = ('f', r.arity)
    else:
        c = to_canon(r)
    return ('ok', c, u)


def twin_outcome(k, text):
    try:
        r = k(text)
    except Exception as e:
        return ('err', type(e).__name__)
    c = to_canon(r)
    return ('ok', c, I(1) if c == U else I(0))


def op_desc(op):
    ct, tt = client_twin_text(op)
    return {"client": ct, "twin": tt}


def op_class(op):
    return {'eval': 'f("expr")', 'sym': 'f(:name)', 'call': 'f(:fn,args)', 'proxy': 'proxy via ' + (op[1] if op[0] == 'proxy' else ''),
            'dset': 'dict set', 'dsetfn': 'dict set function', 'dget': 'dict get', 'redef': 'redefine'}[op[0]]


def op_values(op):
    if op[0] == 'call':
        return list(op[2])
    if op[0] == 'proxy':
        return list(op[3])
    if op[0] == 'dset':
        return [op[2]]
    return []


def reset(pair, twin):
    # a fresh connection for every sequence, so that a case is a function of its own operations only
    try:
        pair.kc('.clic(f)')
    except Exception:
        pass
    pair.connect()
    pair.kc('f(' + kstr(RESET) + ')')
    twin(RESET)
    pair.kc('r::0')


def run_sequence(ops, stats, report):
    pair, twin = state()
    _S['uses'] = _S.get('uses', 0) + 1
    reset(pair, twin)
    flex = 1
    for i, op in enumerate(ops):
        # flex takes exactly as many arguments as its current definition has parameters (klongpy tolerates surplus
        # arguments locally; that leniency is not part of the language and is not asked of the remote path)
        if op[0] == 'call' and op[1] == 'flex':
            op = ('call', 'flex', op[2][:flex], op[3])
        elif op[0] == 'proxy' and op[2] == 'flex':
            op = ('proxy', op[1], 'flex', op[3][:flex])
        elif op[0] in ('redef', 'dsetfn'):
            flex = op[1]
        ct, tt = client_twin_text(op)
        if op[0] == 'call' and op[3] == 'join':
            # the argument list is built on the client by joining; if klongpy cannot even build it locally (e.g. members
            # that are empty lists) nothing is sent and the case says nothing about transport
            try:
                pair.kc(ct[len('r::f('):-1])
            except Exception:
                stats.reject('argument list cannot be built on the client')
                continue
        exp = twin_outcome(twin, tt)
        got = client_outcome(pair.kc, ct)
        vals = op_values(op)
        nontriv = op[0] != 'eval' or (exp[0] == 'ok' and exp[1][0] != 'i')
        classes = ['op:' + op_class(op)]
        if exp[0] == 'ok':
            classes.append('result:' + {'i': 'integer', 'r': 'real', 'c': 'char', 's': 'string', 'y': 'symbol', 'l': 'list',
                                        'd': 'dictionary', 'u': 'undefined', 'f': 'function'}.get(exp[1][0], 'other'))
        else:
            classes.append('result:error')
        if any(v == U for v in vals):
            classes.append('arg:undefined')
        stats.case(('live', ct), nontrivial=nontriv, classes=classes,
                   sample={"client": ct, "server-side": tt, "result": show(exp[1]) if exp[0] == 'ok' else 'error'})
        case = {"ops": [list(o) for o in ops[:i + 1]], "client": ct, "twin": tt}
        key = 'live/' + op_class(op) + '/'
        if got[0] == 'hang':
            report(key + 'hang', case, expected=str(exp)[:200], observed='client still waiting after 20 s')
            pair.connect()
            return
        if exp[0] == 'err':
            if got[0] != 'err':
                report(key + 'no-error', case, expected='an error (' + exp[1] + ' on the server)', observed=show(got[1]))
            # the server closed the connection: reconnect and stop this sequence
            try:
                pair.connect()
            except Exception as e:
                raise core.HarnessError(f"reconnect failed: {e}")
            return
        if got[0] == 'err':
            report(key + 'raised', case, expected=show(exp[1]), observed=got[1])
            try:
                pair.connect()
            except Exception as e:
                raise core.HarnessError(f"reconnect failed: {e}")
            return
        if not ceq(exp[1], got[1]):
            kindkey = {'u': 'undefined', 'f': 'function', 'd': 'dictionary'}.get(exp[1][0], 'value')
            report(key + kindkey, case, expected=show(exp[1]), observed=show(got[1]))
            return
        if exp[2] != got[2]:
            report(key + 'undefined-test', case, expected=f':_ gives {show(exp[2])}', observed=f':_ gives {show(got[2])}')
            return
    # server state equals the twin's
    for name in DATA:
        try:
            sv = to_canon(pair.ks[_sym(name)])
            tv = to_canon(twin(name))
        except Exception as e:
            raise core.HarnessError(f"state read failed: {e}")
        if not ceq(sv, tv):
            report('live/state/' + name, {"ops": [list(o) for o in ops]}, expected=show(tv), observed=show(sv))
            return


def _sym(name):
    from klongpy.core import KGSym
    return KGSym(name)


# ------------------------------------------------------------------ generators

def usable(c):
    """no dictionary inside a list (outside the stated universe of C11); -2^63 has no expression form (it is read as the
    negation of 2^63, which is outside the integers) although it can appear inside a list literal"""
    return not has_dict_in_list(c) and '-9223372036854775808' not in repr(c)


def arg_values():
    v = values(True).filter(usable)
    return st.one_of(v, v, st.just(U))


@st.composite
def operations(draw):
    kind = draw(st.sampled_from(['eval', 'eval', 'sym', 'call', 'call', 'call', 'proxy', 'proxy', 'dset', 'dsetfn', 'dget', 'redef']))
    if kind == 'eval':
        sub = draw(st.sampled_from(['lit', 'lit', 'assign', 'assign', 'read', 'read', 'undef', 'undef', 'apply', 'apply', 'isundef', 'isundef', 'error']))
        if sub == 'lit':
            return ('eval', render(draw(values(True).filter(usable))))
        if sub == 'assign':
            return ('eval', draw(st.sampled_from(DATA)) + '::' + render(draw(values(True).filter(usable))))
        if sub == 'read':
            return ('eval', draw(st.sampled_from(DATA + ['id', 'pair', 'nil0'])))
        if sub == 'undef':
            return ('eval', draw(st.sampled_from(UNDEF_EXPRS + ['und(1)', '[1 2],1%0'])))
        if sub == 'error':
            return ('eval', draw(st.sampled_from(['1+', '[1 2]@9', 'id(', '#:a', 'zz(1)', '1+"a"', '.nosuch(1)'])))
        if sub == 'isundef':
            return ('eval', ':_' + draw(st.sampled_from(DATA + ['(1%0)'])))
        fn = draw(st.sampled_from(['id', 'pair', 'isu']))
        args = [draw(arg_values()) for _ in range(FNS[fn])]
        return ('eval', fn + '(' + ';'.join(arg_text(a) for a in args) + ')')
    if kind == 'sym':
        return ('sym', draw(st.sampled_from(DATA + list(FNS) + ['flex'] * 4)))     # flex is the name that gets rebound
    if kind in ('call', 'proxy'):
        fn = draw(st.sampled_from(list(FNS) + ['flex'] * 4))
        arity = FNS[fn]
        if fn == 'flex':
            arity = 3       # cut to the arity flex has at that point of the sequence when it runs
        if fn == 'cnt':
            args = [draw(st.one_of(st.lists(atoms, max_size=4).map(LL), st.text(alphabet='ab "', max_size=5).map(S)))]
        else:
            args = [draw(arg_values()) for _ in range(arity)]
        if kind == 'call':
            style = draw(st.sampled_from(['literal', 'join']))
            if style == 'literal' and not all(a != U and renderable(a) and a[0] != 'd' for a in args):
                style = 'join'
            if style == 'join' and any(a[0] == 'c' for a in args):
                # ,0ca is the string "a": a character cannot be put into a list by joining
                style = 'literal' if all(a != U and renderable(a) and a[0] != 'd' for a in args) else None
            if style is None:
                args = [I(7) if a[0] == 'c' else a for a in args]
                style = 'join'
            if style == 'join' and {'i', 'r'} <= {a[0] for a in args}:
                # joining an integer atom and a real atom makes both real on the client already (homogeneous lists)
                args = [I(int(a[1])) if a[0] == 'r' else a for a in args]
            return ('call', fn, tuple(args), style)
        return ('proxy', draw(st.sampled_from(['f', 'd'])), fn, tuple(args))
    if kind == 'dset':
        v = draw(arg_values())
        style = draw(st.sampled_from(['literal', 'join']))
        if style == 'literal' and (v == U or v[0] == 'd' or not renderable(v)):
            style = 'join'
        if style == 'join' and v[0] == 'c':
            style = 'literal'
        return ('dset', draw(st.sampled_from(DATA)), v, style)
    if kind == 'dsetfn':
        return ('dsetfn', draw(st.sampled_from([1, 2, 3])))
    if kind == 'dget':
        return ('dget', draw(st.sampled_from(DATA + ['id', 'flex'])))
    return ('redef', draw(st.sampled_from([1, 2, 3])))


def live_shard(seed_value, n):
    import os
    import sys
    _S['recycle_after'] = 400 if n >= 1000 else 10 ** 9      # long campaigns only (see state())
    sys.stderr = open(os.devnull, 'w')      # klongpy prints a traceback for every remote failure
    stats = core.Stats()
    f = core.Findings("C13")

    def make_test(report):
        @given(st.lists(operations(), min_size=1, max_size=10))
        def t(ops):
            run_sequence(ops, stats, report)
        return t
    try:
        core.hyp_collect(stats, make_test, seed_value, n, rounds=8, is_known=lambda k: f.match(k) is not None)
    finally:
        if 'pair' in _S:
            _S.pop('pair').close()
    return stats


# ------------------------------------------------------------------ framing

def msg_canon(m):
    n = type(m).__name__
    if n == 'KGRemoteFnCall':
        return ('call', to_canon(m.sym), tuple(to_canon(p) for p in m.params))
    if n == 'KGRemoteDictSetCall':
        return ('set', to_canon(m.key), to_canon(m.value))
    if n == 'KGRemoteDictGetCall':
        return ('get', to_canon(m.key))
    return to_canon(m)


async def feed_and_read(stream, cuts, nframes):
    from klongpy.sys_fn_ipc import stream_recv_msg
    reader = asyncio.StreamReader()
    got = []

    async def consumer():
        for _ in range(nframes):
            got.append(await stream_recv_msg(reader))
    task = asyncio.ensure_future(consumer())
    pos = 0
    for c in list(cuts) + [len(stream)]:
        reader.feed_data(stream[pos:c])
        pos = c
        for _ in range(4):
            await asyncio.sleep(0)
    reader.feed_eof()
    try:
        await asyncio.wait_for(task, 10)
        err = None
    except Exception as e:  # noqa
        err = type(e).__name__ + ': ' + str(e)[:80]
    rest = await reader.read()
    return got, err, len(rest)


def judge_frames(loop, stats, report, msgs, cuts, label):
    from klongpy.sys_fn_ipc import encode_message
    ids = [uuid.UUID(int=i + 1) for i in range(len(msgs))]
    frames = [encode_message(i, m) for i, m in zip(ids, msgs)]
    stream = b''.join(frames)
    cuts = sorted(set(c for c in cuts if 0 < c < len(stream)))
    bounds = list(itertools.accumulate(len(f) for f in frames))
    inside = any(c not in bounds for c in cuts)
    sizes = tuple(len(f) for f in frames)
    stats.case(('frames', sizes, tuple(cuts), label), nontrivial=inside or len(frames) > 1,
               classes=['frames:%d' % len(frames), 'cuts:%d' % len(cuts)] + (['frame>64KiB'] if max(sizes) > 65536 else []) +
               (['cut inside header'] if any(0 < (c - ([0] + bounds)[sum(1 for b in bounds if b <= c)]) < 20 for c in cuts) else []),
               sample={"frame sizes": list(sizes), "cuts": list(cuts)})
    got, err, rest = loop.run_until_complete(feed_and_read(stream, cuts, len(frames)))
    case = {"frame_sizes": list(sizes), "cuts": list(cuts), "label": label}
    key = 'frames/' + ('big' if max(sizes) > 65536 else 'small') + '/'
    if err is not None:
        report(key + 'raised', case, expected=f'{len(frames)} messages', observed=err)
        return
    exp = [(i, msg_canon(m)) for i, m in zip(ids, msgs)]
    obs = [(i, msg_canon(m)) for i, m in got]
    if exp != obs:
        report(key + 'messages', case, expected=str(exp)[:300], observed=str(obs)[:300])
        return
    if rest:
        report(key + 'leftover', case, expected='stream fully consumed', observed=f'{rest} bytes left')


def small_messages():
    from klongpy.sys_fn_ipc import KGRemoteFnCall, KGRemoteDictSetCall, KGRemoteDictGetCall
    from klongpy.core import KGSym, KLONG_UNDEFINED
    return [1, "ab", KGRemoteFnCall(KGSym('f'), [1, "x"]), KGRemoteDictGetCall(KGSym('k')), KGRemoteDictSetCall(KGSym('k'), KLONG_UNDEFINED)]


def frames_exhaustive(part, parts):
    """every way of cutting 1-3 short frames into <= 3 reads"""
    stats = core.Stats()
    f = core.Findings("C13")
    loop = asyncio.new_event_loop()
    seen = set()

    def report(fkey, case, expected=None, observed=None, note=None):
        if fkey in seen and f.match(fkey) is None:
            return
        seen.add(fkey)
        stats.fail(fkey, case, expected, observed, note)
    from klongpy.sys_fn_ipc import encode_message
    sm = small_messages()
    combos = [[m] for m in sm[:3]] + [[sm[0], sm[1]], [sm[2], sm[0]], [sm[3], sm[4]], [sm[0], sm[0], sm[1]], [sm[1], sm[3], sm[0]]]
    idx = 0
    for ci, msgs in enumerate(combos):
        n = sum(len(encode_message(uuid.UUID(int=1), m)) for m in msgs)
        cutsets = [()] + [(a,) for a in range(1, n)] + [(a, b) for a in range(1, n) for b in range(a + 1, n)]
        for cuts in cutsets:
            idx += 1
            if idx % parts != part:
                continue
            judge_frames(loop, stats, report, msgs, cuts, f'combo{ci}')
    loop.close()
    return stats


def frames_generated(seed_value, n):
    stats = core.Stats()
    f = core.Findings("C13")
    loop = asyncio.new_event_loop()
    from klongpy.sys_fn_ipc import KGRemoteFnCall
    from klongpy.core import KGSym
    import numpy as np
    body = st.one_of(
        values(True).filter(usable).map(to_py),
        st.sampled_from([65516, 65536, 65537, 70000, 131072, 200000]).map(lambda k: 'x' * k),
        st.sampled_from([9000, 20000, 40000]).map(lambda k: np.arange(k)),
        st.tuples(st.sampled_from(['f', 'g']), st.lists(st.integers(0, 9), max_size=3)).map(lambda t: KGRemoteFnCall(KGSym(t[0]), t[1])))

    def make_test(report):
        @given(st.lists(body, min_size=1, max_size=3), st.lists(st.one_of(st.integers(0, 400000), st.sampled_from([16, 20, 21])), max_size=2),
               st.lists(st.integers(-25, 25), max_size=2), st.data())
        def t(msgs, abs_cuts, rel_cuts, data):
            from klongpy.sys_fn_ipc import encode_message
            sizes = [len(encode_message(uuid.UUID(int=1), m)) for m in msgs]
            bounds = list(itertools.accumulate(sizes))
            cuts = list(abs_cuts)
            for r in rel_cuts:      # near a frame boundary / header
                b = data.draw(st.sampled_from([0] + bounds))
                cuts.append(b + r)
            cuts = sorted(set(c for c in cuts if 0 < c < bounds[-1]))[:2]
            judge_frames(loop, stats, report, msgs, cuts, 'generated')
        return t
    core.hyp_collect(stats, make_test, seed_value, n, rounds=6, is_known=lambda k: f.match(k) is not None)
    loop.close()
    return stats


def shard(kind, a, b):
    if kind == 'live':
        return live_shard(a, b)
    if kind == 'exh':
        return frames_exhaustive(a, b)
    return frames_generated(a, b)


def check(run):
    quick = run.tier == 'quick'
    jobs = [('live', run.seed * 1000 + i, 300 if quick else 1500) for i in range(8)]
    jobs += [('exh', i, 4) for i in range(4)]
    jobs += [('gen', run.seed * 1000 + 100 + i, 1000 if quick else 10000) for i in range(4)]
    run.absorb(core.pool_map('vk.c13_ipc', 'shard', jobs))
    run.min_class_fraction = {'op:f(:fn,args)': 0.008, 'frame>64KiB': 0.002}


def replay(case):
    out = []
    stats = core.Stats()

    def report(fkey, case_, expected=None, observed=None, note=None):
        out.append((fkey, expected, observed))
    if 'ops' in case:
        def tup(o):
            return tuple(tup(x) if isinstance(x, list) else x for x in o)
        try:
            run_sequence([tup(o) for o in case['ops']], stats, report)
        finally:
            if 'pair' in _S:
                _S.pop('pair').close()
    return out
