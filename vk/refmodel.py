"""Reference model of the Klong primitive verbs (C01) and adverbs (C02) over canonical values.

Written from the reference text embedded in the verb docstrings (the Klong manual), in pure
Python over the canonical tuples of vk/canon.py - no numpy, no klongpy.  Wherever the reference
(and the official suite) is silent the model raises `Outside` ("outside the reference domain"):
such cases are counted as rejected, never judged.  Every result carries the clause tag of the
sentence that produced it.
"""
import math

from .canon import I, R, C, S, Y, LL, U

INT_LIMIT = 2 ** 53


class Outside(Exception):
    """The reference defines nothing for these operands."""


# ----------------------------------------------------------------------------- predicates

def isint(c): return c[0] == 'i'
def isreal(c): return c[0] == 'r'
def isnum(c): return c[0] in 'ir'
def ischar(c): return c[0] == 'c'
def isstr(c): return c[0] == 's'
def issym(c): return c[0] == 'y'
def islist(c): return c[0] == 'l'
def isdict(c): return c[0] == 'd'
def isempty(c): return (c[0] == 'l' and not c[1]) or (c[0] == 's' and c[1] == '')
def isatom(c): return not ((c[0] == 'l' and c[1]) or (c[0] == 's' and c[1]))


def num(v):
    """canonical number from a python value, keeping int/real kind"""
    if isinstance(v, bool):
        return I(int(v))
    if isinstance(v, int):
        if abs(v) >= INT_LIMIT:
            raise Outside('integer beyond 2^53')
        return I(v)
    if not math.isfinite(v):
        raise Outside('non-finite real')
    return R(v)


def items(c):
    """elements of a list, or characters of a string"""
    if c[0] == 'l':
        return list(c[1])
    if c[0] == 's':
        return [C(ch) for ch in c[1]]
    raise Outside('not a list or string')


def rebuild(like, elems):
    """list or string result of the same type as `like`"""
    if like[0] == 's':
        if not all(e[0] == 'c' for e in elems):
            raise Outside('string result with non-character elements')
        return S(''.join(e[1] for e in elems))
    return LL(elems)


def match(a, b):
    """Klong Match as a python bool (numbers by value with a relative epsilon; lists pairwise)."""
    if isnum(a) and isnum(b):
        x, y = float(a[1]), float(b[1])
        return x == y or abs(x - y) <= 1e-9 * max(abs(x), abs(y))
    if islist(a) and islist(b):
        return len(a[1]) == len(b[1]) and all(match(x, y) for x, y in zip(a[1], b[1]))
    if islist(a) != islist(b):
        other = b if islist(a) else a
        if isstr(other):
            raise Outside('match of a string with a list')
        return False
    if a[0] == b[0]:
        return a == b
    if {a[0], b[0]} == {'c', 's'}:
        raise Outside('match of a character with a string')
    return False


# ----------------------------------------------------------------------------- atomic lifting

def _no_empty(c):
    if isempty(c):
        raise Outside('empty operand of an atomic verb')


def lift1(f, leaf):
    def g(a):
        _no_empty(a)
        if islist(a) and a[1]:
            return LL([g(x) for x in a[1]])
        if not leaf(a):
            raise Outside('operand outside the verb domain')
        return f(a)
    return g


def lift2(f, leaf):
    """Atomic dyad: element-wise through any nesting depth with atom-to-list extension.
    `leaf` tells which values are atoms for this verb (strings are atoms for comparisons)."""
    def g(a, b):
        _no_empty(a)
        _no_empty(b)
        la, lb = islist(a) and not leaf(a), islist(b) and not leaf(b)
        if la and lb:
            if len(a[1]) != len(b[1]):
                raise Outside('lists of unequal length')
            return LL([g(x, y) for x, y in zip(a[1], b[1])])
        if la:
            if not leaf(b):
                raise Outside('operand outside the verb domain')
            return LL([g(x, b) for x in a[1]])
        if lb:
            if not leaf(a):
                raise Outside('operand outside the verb domain')
            return LL([g(a, y) for y in b[1]])
        if not (leaf(a) and leaf(b)):
            raise Outside('operand outside the verb domain')
        return f(a, b)
    return g


# ----------------------------------------------------------------------------- monads

def m_atom(a):
    return I(1 if isatom(a) else 0), 'atom'


def _char(a):
    if not isint(a) or not (32 <= a[1] < 127):
        raise Outside('code point outside printable ASCII')
    return C(chr(a[1]))


def m_char(a):
    return lift1(_char, isint)(a), 'char.atomic'


def m_enumerate(a):
    if not isint(a) or a[1] < 0 or a[1] > 10000:
        raise Outside('enumerate needs a small non-negative integer')
    return LL([I(i) for i in range(a[1])]), 'enumerate'


def m_expand(a):
    if isint(a):
        if a[1] < 0 or a[1] > 10000:
            raise Outside('expand of a negative integer')
        return LL([I(0)] * a[1]), 'expand.integer'
    if islist(a):
        out = []
        for i, x in enumerate(a[1]):
            if not isint(x) or x[1] < 0 or x[1] > 1000:
                raise Outside('expand needs non-negative integers')
            out += [I(i)] * x[1]
        return LL(out), 'expand.list'
    raise Outside('expand operand')


def m_first(a):
    if islist(a):
        return (a[1][0] if a[1] else a), 'first.list'
    if isstr(a):
        return (C(a[1][0]) if a[1] else a), 'first.string'
    return a, 'first.atom'


def _floor(a):
    if isint(a):
        return a
    v = math.floor(a[1])
    if abs(v) >= INT_LIMIT:
        raise Outside('floor beyond exact precision')
    return I(v)


def m_floor(a):
    return lift1(_floor, isnum)(a), 'floor.atomic'


def _format(a):
    if isint(a):
        return S(str(a[1]))
    if isreal(a):
        r = repr(a[1])
        if 'e' in r or 'inf' in r or 'nan' in r:
            raise Outside('format of a real needing an exponent')
        return S(r)
    if ischar(a):
        return S(a[1])
    if isstr(a):
        return a
    if issym(a):
        return S(':' + a[1])
    raise Outside('format operand')


def m_format(a):
    if isstr(a):
        return a, 'format.string'
    return lift1(_format, lambda c: c[0] in 'ircsy')(a), 'format.atomic'


def _cmpkey(c):
    """total order key for gradable elements"""
    if isnum(c):
        return ('n', float(c[1]))
    if ischar(c):
        return ('c', ord(c[1]))
    if isstr(c):
        return ('s', c[1])
    if issym(c):
        return ('y', c[1])
    if islist(c):
        return ('l', tuple(_cmpkey(x) for x in c[1]))
    raise Outside('not comparable')


def grade_valid(a, perm, descending):
    """validity predicate for Grade-Up/Down: perm is a permutation of the indices that sorts a."""
    el = items(a)
    if any(isempty(x) for x in el) or any(islist(x) and any(islist(y) or isempty(y) for y in x[1]) for x in el):
        raise Outside('grade of a list holding empties / deeper nesting')
    keys = [_cmpkey(x) for x in el]
    if len({k[0] for k in keys}) > 1:
        raise Outside('grade of mixed kinds')
    if keys and keys[0][0] == 'l' and len({len(k[1]) for k in keys}) > 1:
        raise Outside('grade of lists of unequal length')
    if perm[0] != 'l' or sorted((p[1] if p[0] == 'i' else None) for p in perm[1]) != list(range(len(el))):
        return False
    seq = [keys[p[1]] for p in perm[1]]
    return all((seq[i] >= seq[i + 1]) if descending else (seq[i] <= seq[i + 1]) for i in range(len(seq) - 1))


def m_group(a):
    if not (islist(a) or isstr(a)):
        raise Outside('group operand')
    el = items(a)
    if any(isempty(x) or islist(x) for x in el):
        raise Outside('group of a list holding lists / empties')
    groups, reps = [], []
    for i, x in enumerate(el):
        for g, r in zip(groups, reps):
            if match(x, r):
                g.append(I(i))
                break
        else:
            groups.append([I(i)])
            reps.append(x)
    return LL([LL(g) for g in groups]), 'group.first-appearance'


def m_list(a):
    if ischar(a):
        return S(a[1]), 'list.char'          # suite: ,0cx --> "x"
    return LL([a]), 'list'


def m_negate(a):
    return lift1(lambda c: num(-c[1]), isnum)(a), 'negate.atomic'


def m_not(a):
    def f(c):
        if isnum(c):
            if isreal(c) and c[1] == 0:
                raise Outside('truth of 0.0')
            return I(1 if c[1] == 0 else 0)
        return I(1 if isempty(c) else 0)
    if isempty(a):
        return I(1), 'not.empty'
    return lift1(f, lambda c: True)(a), 'not'


def m_range(a):
    if not (islist(a) or isstr(a)):
        raise Outside('range operand')
    out = []
    for x in items(a):
        if not any(match(x, y) for y in out):
            out.append(x)
    return rebuild(a, out), 'range.order-of-appearance'


def _recip(c):
    if c[1] == 0:
        return U
    return R(1.0 / c[1])


def m_reciprocal(a):
    if islist(a) and _has_zero(a):
        raise Outside('reciprocal of a list holding 0')
    return lift1(_recip, isnum)(a), 'reciprocal.atomic'


def _has_zero(c):
    if islist(c):
        return any(_has_zero(x) for x in c[1])
    return isnum(c) and c[1] == 0


def m_reverse(a):
    if islist(a) or isstr(a):
        return rebuild(a, items(a)[::-1]), 'reverse.list'
    return a, 'reverse.atom'


def shape(a):
    if isstr(a):
        return [len(a[1])] if a[1] else None
    if not islist(a):
        return None
    if not a[1]:
        raise Outside('shape of the empty list')
    if any(isempty(x) for x in a[1]):
        raise Outside('shape of a list holding empty members')
    subs = [shape(x) for x in a[1]]
    if all(s is not None for s in subs) and all(s == subs[0] for s in subs):
        return [len(a[1])] + subs[0]
    return [len(a[1])]


def m_shape(a):
    if isstr(a) and not a[1]:
        raise Outside('shape of the empty string')
    s = shape(a)
    if s is None:
        return I(0), 'shape.atom'
    return LL([I(n) for n in s]), 'shape.array'


def m_size(a):
    if islist(a) or isstr(a):
        return I(len(a[1])), 'size.list'
    if isnum(a):
        return num(abs(a[1])), 'size.number'
    if ischar(a):
        return I(ord(a[1])), 'size.char'
    raise Outside('size operand')


def m_transpose(a):
    if islist(a) and not a[1]:
        return a, 'transpose.empty'
    s = shape(a) if islist(a) else None
    if s is None or len(s) != 2 or any(x[0] != 'l' for x in a[1]):
        raise Outside('transpose of a non-matrix')
    rows = [x[1] for x in a[1]]
    return LL([LL([r[j] for r in rows]) for j in range(s[1])]), 'transpose.matrix'


MONADS = {'@': m_atom, ':#': m_char, '!': m_enumerate, '&': m_expand, '*': m_first, '_': m_floor, '$': m_format,
          '=': m_group, ',': m_list, '-': m_negate, '~': m_not, '?': m_range, '%': m_reciprocal, '|': m_reverse,
          '^': m_shape, '#': m_size, '+': m_transpose}
GRADES = {'<': False, '>': True}


# ----------------------------------------------------------------------------- dyads

def _arith(op):
    def f(a, b):
        x, y = a[1], b[1]
        r = x + y if op == '+' else x - y if op == '-' else x * y
        return num(r)
    return f


def d_plus(a, b): return lift2(_arith('+'), isnum)(a, b), 'plus.atomic'
def d_minus(a, b): return lift2(_arith('-'), isnum)(a, b), 'minus.atomic'
def d_times(a, b): return lift2(_arith('*'), isnum)(a, b), 'times.atomic'


def _divide(a, b):
    if b[1] == 0:
        return U
    return R(a[1] / b[1])


def d_divide(a, b):
    if (islist(a) or islist(b)) and _has_zero(b):
        raise Outside('division of / by a list holding 0')
    return lift2(_divide, isnum)(a, b), 'divide.atomic'


def _power(a, b):
    x, y = a[1], b[1]
    if x == 0 and y < 0:
        raise Outside('pole')
    if isint(a) and isint(b):
        if y >= 0:
            if abs(x) > 1 and y * max(1, abs(x).bit_length()) > 4096:
                raise Outside('result beyond 4096 bits: not evaluated by the model')
            return num(x ** y)
        r = float(x) ** y
        if r == int(r):
            raise Outside('integral result of a negative power: kind not stated by the reference')
        return R(r)
    if x < 0 and isreal(b) and y != int(y):
        raise Outside('complex result')
    try:
        r = float(x) ** float(y)
    except OverflowError:
        raise Outside('overflow')
    if not math.isfinite(r):
        raise Outside('overflow')
    if r == int(r):
        raise Outside('integral result of a real power: kind not stated by the reference')
    return R(r)


def d_power(a, b): return lift2(_power, isnum)(a, b), 'power.atomic'


def _rem(a, b):
    if b[1] == 0:
        raise Outside('remainder by zero')
    return I(int(math.fmod(a[1], b[1])))


def d_remainder(a, b): return lift2(_rem, isint)(a, b), 'remainder.atomic'


def _idiv(a, b):
    if b[1] == 0:
        raise Outside('integer division by zero')
    q = abs(a[1]) // abs(b[1])
    return I(q if (a[1] >= 0) == (b[1] >= 0) else -q)


def d_intdiv(a, b): return lift2(_idiv, isint)(a, b), 'integer-divide.atomic'


def _maxmin(mx):
    def f(a, b):
        if a[1] == b[1]:
            if a[0] != b[0]:
                raise Outside('max/min of equal numbers of different kind')
            return a
        return (a if a[1] > b[1] else b) if mx else (a if a[1] < b[1] else b)
    return f


def d_max(a, b): return lift2(_maxmin(True), isnum)(a, b), 'max.atomic'
def d_min(a, b): return lift2(_maxmin(False), isnum)(a, b), 'min.atomic'


def _cmp_leaf(c):
    return c[0] in 'ircsy'


def _same_family(a, b):
    fam = lambda c: 'n' if isnum(c) else c[0]
    return fam(a) == fam(b)


def _equal(a, b):
    if not _same_family(a, b):
        raise Outside('comparison across kinds')
    if isreal(a) or isreal(b):
        raise Outside('real numbers should not be compared with =')
    return I(1 if a[1] == b[1] else 0)


def _less(a, b):
    if not _same_family(a, b):
        raise Outside('comparison across kinds')
    if ischar(a):
        return I(1 if ord(a[1]) < ord(b[1]) else 0)
    return I(1 if a[1] < b[1] else 0)


def d_equal(a, b): return lift2(_equal, _cmp_leaf)(a, b), 'equal.atomic'
def d_less(a, b): return lift2(_less, _cmp_leaf)(a, b), 'less.atomic'
def d_more(a, b): return lift2(lambda x, y: _less(y, x), _cmp_leaf)(a, b), 'more.atomic'


def d_match(a, b):
    return I(1 if match(a, b) else 0), 'match'


def d_join(a, b):
    if isdict(a) or isdict(b):
        raise Outside('dictionary join (C10)')
    if islist(a) and islist(b):
        return LL(list(a[1]) + list(b[1])), 'join.list-list'
    if islist(a):
        return LL(list(a[1]) + [b]), 'join.list-atom'
    if islist(b):
        return LL([a] + list(b[1])), 'join.atom-list'
    if isstr(a) and isstr(b):
        return S(a[1] + b[1]), 'join.string-string'
    if isstr(a) and ischar(b):
        return S(a[1] + b[1]), 'join.string-char'
    if ischar(a) and isstr(b):
        return S(a[1] + b[1]), 'join.char-string'
    if ischar(a) and ischar(b):
        raise Outside('join of two characters')
    return LL([a, b]), 'join.tuple'


def d_take(a, b):
    if not isint(a) or not (islist(b) or isstr(b)):
        raise Outside('take operands')
    el = items(b)
    n = a[1]
    if n == 0:
        return rebuild(b, []), 'take.zero'
    if not el:
        raise Outside('take from an empty list')
    if abs(n) > 200:
        raise Outside('take count too large for the model')
    if n > 0:
        out = [el[i % len(el)] for i in range(n)]
        tag = 'take.front' if n <= len(el) else 'take.front-overshoot'
    else:
        m = -n
        start = (-m) % len(el)
        out = [el[(start + i) % len(el)] for i in range(m)]
        tag = 'take.back' if m <= len(el) else 'take.back-overshoot'
    return rebuild(b, out), tag


def d_drop(a, b):
    if isdict(b):
        raise Outside('dictionary drop (C10)')
    if not isint(a) or not (islist(b) or isstr(b)):
        raise Outside('drop operands')
    el = items(b)
    n = a[1]
    out = el[n:] if n >= 0 else el[:max(0, len(el) + n)]
    tag = 'drop.front' if n >= 0 else 'drop.back'
    if abs(n) > len(el):
        tag += '-overshoot'
    return rebuild(b, out), tag


def d_at(a, b):
    if not (islist(a) or isstr(a)):
        raise Outside('at/index on a non-list')
    el = items(a)

    def pick(i):
        if not isint(i) or not (0 <= i[1] < len(el)):
            raise Outside('index out of range / negative')
        return el[i[1]]
    if isint(b):
        return pick(b), 'at.integer'
    if islist(b):
        out = [pick(i) for i in b[1]]
        if isstr(a):
            return S(''.join(c[1] for c in out)), 'at.list-string'
        return LL(out), 'at.list'
    raise Outside('index operand')


def d_index_in_depth(a, b):
    if not islist(a):
        raise Outside('index-in-depth on a non-list')
    s = shape(a)
    if any(isstr(x) for x in _leaves(a)):
        raise Outside('index-in-depth into strings')
    idx = [b] if isint(b) else list(b[1]) if islist(b) else None
    if idx is None or s is None or len(idx) != len(s):
        raise Outside('number of indices must match the rank')
    cur = a
    for i in idx:
        if not isint(i) or cur[0] not in 'ls':
            raise Outside('index')
        el = items(cur)
        if not (0 <= i[1] < len(el)):
            raise Outside('index out of range')
        cur = el[i[1]]
    return cur, 'index-in-depth'


def d_amend(a, b):
    if not islist(b) or len(b[1]) < 2:
        raise Outside('amend needs a value and at least one index')
    v, idx = b[1][0], b[1][1:]
    if not all(isint(i) for i in idx):
        raise Outside('amend indices must be integers')
    if islist(a):
        el = list(a[1])
        for i in idx:
            if not (0 <= i[1] < len(el)):
                raise Outside('amend index out of range')
            el[i[1]] = v
        return LL(el), 'amend.list'
    if isstr(a):
        if ischar(v):
            el = list(a[1])
            for i in idx:
                if not (0 <= i[1] < len(el)):
                    raise Outside('amend index out of range')
                el[i[1]] = v[1]
            return S(''.join(el)), 'amend.string-char'
        if isstr(v) and v[1]:
            s = a[1]
            for i in idx:
                if not (0 <= i[1] <= len(s)):
                    raise Outside('amend index beyond #a')
                s = s[:i[1]] + v[1] + s[i[1] + len(v[1]):]
            return S(s), 'amend.string-string'
    raise Outside('amend operands')


def d_amend_in_depth(a, b):
    if not islist(a) or not islist(b) or len(b[1]) < 2:
        raise Outside('amend-in-depth operands')
    v, idx = b[1][0], list(b[1][1:])
    s = shape(a)
    if s is None or len(s) != len(idx) or not all(isint(i) for i in idx) or not isatom(v):
        raise Outside('number of indices must match the rank')

    def rec(cur, ix):
        el = list(cur[1])
        if not (0 <= ix[0][1] < len(el)):
            raise Outside('index out of range')
        el[ix[0][1]] = v if len(ix) == 1 else rec(el[ix[0][1]], ix[1:])
        return LL(el)
    return rec(a, idx), 'amend-in-depth'


def d_cut(a, b):
    if not (islist(b) or isstr(b)):
        raise Outside('cut operand')
    pos = [a] if isint(a) else list(a[1]) if islist(a) else None
    if pos is None or not all(isint(p) for p in pos):
        raise Outside('cut positions')
    el = items(b)
    ps = [p[1] for p in pos]
    if any(p < 0 or p > len(el) for p in ps) or any(ps[i] > ps[i + 1] for i in range(len(ps) - 1)):
        raise Outside('cut positions must be increasing and within the list')
    if not el:
        raise Outside('cut of an empty list')
    out, prev = [], 0
    for p in ps + [len(el)]:
        out.append(rebuild(b, el[prev:p]))
        prev = p
    return LL(out), 'cut'


def d_find(a, b):
    if isdict(a):
        raise Outside('dictionary find (C10)')
    if isstr(a):
        if ischar(b):
            return LL([I(i) for i, ch in enumerate(a[1]) if ch == b[1]]), 'find.string-char'
        if isstr(b):
            if b[1] == '':
                if a[1] == '':
                    return LL([I(0)]), 'find.empty-in-empty'
                raise Outside('empty string in a non-empty string')
            return LL([I(i) for i in range(len(a[1]) - len(b[1]) + 1) if a[1].startswith(b[1], i)]), 'find.substring'
        raise Outside('find in a string')
    if islist(a):
        out = []
        for i, x in enumerate(a[1]):
            try:
                if match(x, b):
                    out.append(I(i))
            except Outside:
                pass
        return LL(out), 'find.list'
    raise Outside('find operand')


def _form(a, b):
    if not isstr(b):
        raise Outside('form needs a string')
    t = b[1]
    if isint(a):
        try:
            return I(int(t)) if t.strip() == t and not any(ch in t for ch in '._eE') else U
        except ValueError:
            return U
    if isreal(a):
        if not t or t.strip() != t or any(ch in t.lower() for ch in 'infa_'):
            raise Outside('odd real text')
        try:
            return num(float(t))
        except ValueError:
            return U
    if ischar(a):
        return C(t) if len(t) == 1 else U
    if isstr(a):
        return b
    if issym(a):
        name = t[1:] if t.startswith(':') else t
        if name and name[0].isalpha() and all(ch.isalnum() or ch == '.' for ch in name):
            return Y(name)
        raise Outside('symbol name')
    raise Outside('form prototype')


def d_form(a, b):
    if isstr(a) and isstr(b):
        return b, 'form.string'
    return lift2(_form, lambda c: c[0] in 'ircsy')(a, b), 'form.atomic'


def _format2(a, b):
    if isreal(a):
        raise Outside('n.m format (model declines)')
    if not isint(a):
        raise Outside('format2 width')
    t = _format(b)[1]
    w = abs(a[1])
    return S(t.ljust(w) if a[1] >= 0 else t.rjust(w))


def d_format2(a, b):
    if isint(a) and isstr(b):
        return _format2(a, b), 'format2.pad'
    return lift2(_format2, lambda c: c[0] in 'ircsy')(a, b), 'format2.pad'


def _flatten(c):
    if islist(c):
        out = []
        for x in c[1]:
            out += _flatten(x)
        return out
    if isstr(c) and c[1]:
        return [C(ch) for ch in c[1]]
    return [c]


def d_reshape(a, b):
    dims = [a] if isint(a) else list(a[1]) if islist(a) else None
    if dims is None or not dims or not all(isint(d) for d in dims):
        raise Outside('reshape shape')
    ds = [d[1] for d in dims]
    if isempty(b):
        raise Outside('reshape of an empty source')
    if ds == [0]:
        if not isint(a):
            raise Outside('0:^x identity is stated for the atom 0')
        return b, 'reshape.identity'
    if any(d == 0 or d < -1 for d in ds) or ds.count(-1) > 1:
        raise Outside('reshape dimension')
    if len(ds) == 1:
        # rank-1 target: the members of b are taken as they are (suite: 5:^[[1 2] [3 4]], [2]:^[[1 2 3]])
        src = items(b) if (islist(b) or isstr(b)) else [b]
    else:
        if islist(b) and b[1]:
            sh = shape(b)
            depth_ok = _proper(b, len(sh))
            if not depth_ok:
                raise Outside('reshape of a ragged / nested source to a higher-rank target')
        src = _flatten(b) if (islist(b) or isstr(b)) else [b]
    if not src:
        raise Outside('reshape of an empty source')
    if -1 in ds and len(ds) == 1:
        raise Outside('-1 in a rank-1 shape')
    if any(ischar(x) for x in src) and not isstr(b):
        raise Outside('reshape of characters (list of characters vs string)')
    if islist(b) and any(isstr(x) for x in _leaves(b)) and len(ds) > 1:
        raise Outside('reshape of a list of strings to a higher-rank target')
    if -1 in ds:
        if len(src) < 2:
            raise Outside('-1 with an atom source')
        ds = [len(src) // 2 if d == -1 else d for d in ds]
        if any(d == 0 for d in ds):
            raise Outside('reshape dimension')
    total = 1
    for d in ds:
        total *= d
    if total > 5000:
        raise Outside('reshape too large for the model')
    flat = [src[i % len(src)] for i in range(total)]
    string_src = isstr(b) or (islist(b) and b[1] and all(isstr(x) for x in _leaves(b)) and False)

    def build(level, offset):
        n = ds[level]
        if level == len(ds) - 1:
            seg = flat[offset:offset + n]
            if isstr(b):
                return S(''.join(c[1] for c in seg))
            return LL(seg)
        step = 1
        for d in ds[level + 1:]:
            step *= d
        return LL([build(level + 1, offset + i * step) for i in range(n)])
    tag = 'reshape.exact' if total == len(src) else 'reshape.cycle' if total > len(src) else 'reshape.truncate'
    return build(0, 0), tag


def _proper(c, rank):
    """c is a proper array of that rank: atoms (not lists) at the bottom"""
    if rank == 0:
        return not islist(c)
    return islist(c) and all(_proper(x, rank - 1) for x in c[1])


def _leaves(c):
    if islist(c):
        out = []
        for x in c[1]:
            out += _leaves(x)
        return out
    return [c]


def d_rotate(a, b):
    if not isint(a) or not (islist(b) or isstr(b)):
        raise Outside('rotate operands')
    el = items(b)
    if not el:
        return b, 'rotate.empty'
    n = a[1] % len(el) if a[1] >= 0 else -((-a[1]) % len(el))
    out = el[-n:] + el[:-n] if n else el
    return rebuild(b, out), 'rotate.right' if a[1] >= 0 else 'rotate.left'


def d_split(a, b):
    if not (islist(b) or isstr(b)):
        raise Outside('split operand')
    sizes = [a] if isint(a) else list(a[1]) if islist(a) else None
    if sizes is None or not sizes or not all(isint(s) and s[1] > 0 for s in sizes):
        raise Outside('split sizes must be positive integers')
    el = items(b)
    if not el:
        raise Outside('split of an empty list')
    out, i, k = [], 0, 0
    while i < len(el):
        n = sizes[k % len(sizes)][1]
        out.append(rebuild(b, el[i:i + n]))
        i += n
        k += 1
    tag = 'split.even' if len(el) % sizes[0][1] == 0 and len(sizes) == 1 else 'split.uneven-tail'
    return LL(out), tag


DYADS = {'+': d_plus, '-': d_minus, '*': d_times, '%': d_divide, '^': d_power, '!': d_remainder, ':%': d_intdiv, '|': d_max,
         '&': d_min, '=': d_equal, '<': d_less, '>': d_more, '~': d_match, ',': d_join, '#': d_take, '_': d_drop, '@': d_at,
         ':@': d_index_in_depth, ':=': d_amend, ':-': d_amend_in_depth, ':_': d_cut, '?': d_find, ':$': d_form, '$': d_format2,
         ':^': d_reshape, ':+': d_rotate, ':#': d_split}


def monad(op, a):
    """(value, clause tag) or raises Outside.  Grade-Up/Down return ('grade', descending) - a validity predicate."""
    if op in GRADES:
        if not (islist(a) or isstr(a)):
            raise Outside('grade operand')
        grade_valid(a, LL([I(i) for i in range(len(items(a)))]), GRADES[op]) if False else None
        return ('grade', GRADES[op]), 'grade'
    return MONADS[op](a)


def dyad(op, a, b):
    return DYADS[op](a, b)
