"""C11 - readable output reads back to the same value (.w/.rs/.r, Format/Form).

Generator: Hypothesis recursive values of every data kind (closed leaf universes incl. extreme /
negative numbers, exponent reals, strings over a nasty alphabet), nested <= 3, dictionaries.
Oracle: round-trip + idempotent rewrite; Form(Format(x)) for atoms.  DESIGN.md 3/C11.
"""
import io
import os
import tempfile

import numpy as np
from hypothesis import given, strategies as st

from . import core
from .canon import to_canon, ceq, render, renderable, show, depth, I, R, C, S, Y, LL, D, from_json

LEVEL = "exploration"
RULE = ("value of every data kind (ints incl. beyond 2^63, reals incl. exponent forms, chars, strings over an "
        "alphabet with quotes/blanks/newlines/brackets/comment markers/0c, symbols, lists nested <=3, dictionaries), "
        "built inside Klong from source text (path 'src') or injected as Python/numpy objects (path 'py'); checked: "
        "kg_write -> .rs -> equal value and identical rewrite, .w to a file channel then .r, and x:$$x for atoms; "
        "non-trivial = nested, or string with quote/newline/bracket, or exponent real, or negative number inside a list, "
        "or dictionary; distinct by (path, canonical value)")
ASSUMPTIONS = [
    "the value under test is what the interpreter itself produces from the literal (list literals coerce kinds)",
    "reals must round-trip exactly (Python repr round-trips); inf/nan are not Klong data and are not generated",
]

ALPHA = 'ab "[]{}:;0c\n\'\\.-1'
CHARS = list('a "[]{}:;0\n\'-1x')

ints = st.one_of(st.sampled_from([0, 1, -1, 7, -42, 2 ** 31, -2 ** 31, 2 ** 62, 2 ** 63 - 1, -2 ** 63, 2 ** 64 + 5,
                                  10 ** 20, -10 ** 25]), st.integers(-1000, 1000))
reals = st.one_of(st.sampled_from([0.0, 2.0, -2.0, 0.5, -2.5, 1e-5, 1.5e-7, -1e-7, 1e16, 1e17, 2.5e20, 1e100, 5e-324,
                                   1.7976931348623157e308, 123456789.125, 0.1, 1 / 3, 1e-4, 9.999e-5, 1e15, 12345678901234567.0]),
                  st.floats(allow_nan=False, allow_infinity=False, width=64))
chars = st.sampled_from(CHARS)
strings = st.one_of(st.text(alphabet=ALPHA, max_size=8), st.text(alphabet='a"\n []', min_size=1, max_size=6),
                    st.sampled_from(['say "hi"', 'line1\nline2', '"', '""', ':"not a comment"', '0cx', '[1 2]', ':{[1 2]}', ' ', 'a  b']))
syms = st.sampled_from(['a', 'foo', 'foo.bar', 'a1', 'x9y', 'Abc', 'q.r.s'])

atoms = st.one_of(ints.map(I), reals.map(R), chars.map(C), strings.map(S), syms.map(Y))
keys = st.one_of(st.integers(-5, 5).map(I), st.sampled_from(['k', 'key two', '']).map(S), syms.map(Y),
                 st.sampled_from(list('ab')).map(C))


def values(with_dict):
    """Domain of the statement: atoms, lists of these nested to any depth, and dictionaries of them
    (a dictionary holds atoms and lists; dictionaries nested inside lists or dictionaries are not in the
    stated domain and are not generated)."""
    lists = st.recursive(atoms, lambda ch: st.lists(ch, max_size=4).map(LL), max_leaves=10).filter(lambda c: depth(c) <= 3)
    if not with_dict:
        return lists
    dicts = st.lists(st.tuples(keys, lists), max_size=3, unique_by=lambda kv: kv[0]).map(D)
    return st.one_of(lists, lists, dicts)


def has_dict_in_list(c, inside=False):
    if c[0] == 'd':
        return inside or any(has_dict_in_list(v, True) for _, v in c[1])
    if c[0] == 'l':
        return any(has_dict_in_list(x, True) for x in c[1])
    return False


def to_py(c):
    """canonical -> the Python/numpy object klongpy uses for such a value (injection path)."""
    from klongpy.core import KGSym, KGChar
    from klongpy.backend import np as bknp  # noqa
    t = c[0]
    if t == 'i':
        return c[1]
    if t == 'r':
        return c[1]
    if t == 'c':
        return KGChar(c[1])
    if t == 's':
        return c[1]
    if t == 'y':
        return KGSym(c[1])
    if t == 'l':
        from klongpy.backends import get_backend
        return get_backend('numpy').kg_asarray([to_py(x) for x in c[1]])
    if t == 'd':
        return {to_py(k): to_py(v) for k, v in c[1]}
    raise ValueError(c)


def nontrivial(c, in_list=False):
    t = c[0]
    if t == 'd':
        return True
    if t == 'l':
        return any(x[0] in 'ld' for x in c[1]) or any(nontrivial(x, True) for x in c[1])
    if t == 's':
        return any(ch in c[1] for ch in '"\n[]{}')
    if t == 'r':
        return 'e' in repr(c[1]) or (in_list and c[1] < 0)
    if t == 'i':
        return in_list and c[1] < 0
    return False


_K = {}


def data_value(c):
    if c[0] in 'ufx':
        return False
    if c[0] == 'l':
        return all(data_value(x) for x in c[1])
    if c[0] == 'd':
        return all(data_value(k) and data_value(v) for k, v in c[1])
    return True


def interp():
    from klongpy import KlongInterpreter
    if 'k' not in _K:
        _K['k'] = KlongInterpreter()
    return _K['k']


def roundtrip(c, path):
    """Return None if the property holds for value c via path, else (what, expected, observed)."""
    from klongpy.core import kg_write
    k = interp()
    try:
        if path == 'src':
            v = k(render(c))
        else:
            v = to_py(c)
            k['v0'] = v
            v = k('v0')
    except Exception as e:
        return ('reject', type(e).__name__, None)
    cv = to_canon(v)
    if not data_value(cv):
        return ('reject', 'source text does not evaluate to a data value', None)
    t = kg_write(v, k._backend)
    k['t0'] = t
    try:
        v2 = k('.rs(t0)')
    except RecursionError:
        return ('rs-raises', show(cv), 'RecursionError')
    except Exception as e:
        return ('rs-raises', show(cv), f'{type(e).__name__}: {e}'[:120])
    cv2 = to_canon(v2)
    if not ceq(cv, cv2, rtol=0, atol=0):
        return ('rs-value', show(cv), show(cv2) + ' from text ' + repr(t)[:200])
    t2 = kg_write(v2, k._backend)
    if t2 != t:
        return ('rewrite', t, t2)
    return None


def channel_roundtrip(c):
    """.w to an output channel (file), then .r from an input channel."""
    k = interp()
    d = tempfile.mkdtemp(prefix='vk_c11_')
    fn = os.path.join(d, 'f.txt')
    try:
        try:
            v = k(render(c))
        except Exception as e:
            return ('reject', type(e).__name__, None)
        if not data_value(to_canon(v)):
            return ('reject', 'source text does not evaluate to a data value', None)
        k['v0'] = v
        k['fn0'] = fn
        try:
            k('c0::.oc(fn0)')
            k('.tc(c0)')
            k('.w(v0)')
            k('.cc(c0)')
            k('.tc(.cout)')
            k('c1::.ic(fn0)')
            k('.fc(c1)')
            v2 = k('.r()')
            k('.cc(c1)')
            k('.fc(.cin)')
        except Exception as e:
            try:
                k('.tc(.cout)')
                k('.fc(.cin)')
            except Exception:
                pass
            return ('channel-raises', show(to_canon(v)), f'{type(e).__name__}: {e}'[:120])
        cv, cv2 = to_canon(v), to_canon(v2)
        if not ceq(cv, cv2, rtol=0, atol=0):
            return ('channel-value', show(cv), show(cv2))
        return None
    finally:
        try:
            if os.path.exists(fn):
                os.remove(fn)
            os.rmdir(d)
        except OSError:
            pass


def form_format(c):
    """x:$$x matches x for atoms."""
    k = interp()
    try:
        v = k(render(c))
    except Exception as e:
        return ('reject', type(e).__name__, None)
    if not data_value(to_canon(v)):
        return ('reject', 'source text does not evaluate to a data value', None)
    k['v0'] = v
    try:
        v2 = k('v0:$$v0')
    except Exception as e:
        return ('form-raises', show(to_canon(v)), f'{type(e).__name__}: {e}'[:120])
    cv, cv2 = to_canon(v), to_canon(v2)
    # "matches": Klong Match semantics - kind-exact here except that integral reals may come back
    # as the same real; we require exact canonical equality of kind and value.
    if not ceq(cv, cv2, rtol=0, atol=0):
        return ('form-value', show(cv), show(cv2))
    return None


# ------------------------------------------------------------------------------ finding keys

def trait(c):
    t = c[0]
    if t == 'i':
        return 'int' + (':big' if abs(c[1]) >= 2 ** 63 else '') + (':neg' if c[1] < 0 else '')
    if t == 'r':
        r = repr(c[1])
        return 'real' + (':exp' if 'e' in r else '') + (':neg' if c[1] < 0 else '')
    if t == 'c':
        return 'char:' + repr(c[1])
    if t == 's':
        sp = ''.join(sorted({ch for ch in c[1] if ch in '"[]{}:;\n\'\\'}))
        return 'str:' + repr(sp) + (':empty' if c[1] == '' else '')
    if t == 'y':
        return 'sym'
    if t == 'd':
        return 'dict'
    if t == 'l':
        if not c[1]:
            return 'list:empty'
        return 'list(' + ','.join(sorted({x[0] for x in c[1]})) + ')'
    return t


def subvalues(c):
    yield c
    if c[0] == 'l':
        for x in c[1]:
            yield from subvalues(x)
    elif c[0] == 'd':
        for kk, v in c[1]:
            yield from subvalues(kk)
            yield from subvalues(v)


def blame(c, path, what):
    """Smallest sub-value that fails on its own (top) or as the only element of a list (in-list)."""
    subs = sorted(set(subvalues(c)), key=lambda x: (len(repr(x)), repr(x)))
    for s in subs:
        if path == 'src' and has_dict_in_list(s):
            continue
        r = roundtrip(s, path)
        if r is not None and r[0] != 'reject':
            return f"{path}/top/{trait(s)}/{r[0]}"
        if not (path == 'src' and s[0] == 'd'):
            r = roundtrip(LL([s]), path)
            if r is not None and r[0] != 'reject':
                return f"{path}/in-list/{trait(s)}/{r[0]}"
    return f"{path}/top/{trait(c)}/{what}"


def judge(stats, report, c, path):
    if path == 'src' and has_dict_in_list(c):
        stats.reject('dictionary inside a list literal cannot be written as source (built on the py path instead)')
        return
    r = roundtrip(c, path)
    if r is not None and r[0] == 'reject':
        stats.reject('value not constructible: ' + str(r[1]))
        return
    cls = ['path:' + path, 'depth:%d' % depth(c)]
    if any(s[0] == 'd' for s in subvalues(c)):
        cls.append('has-dict')
    if any(s[0] == 's' and any(ch in s[1] for ch in '"\n') for s in subvalues(c)):
        cls.append('str-quote-or-newline')
    if any(s[0] == 'r' and 'e' in repr(s[1]) for s in subvalues(c)):
        cls.append('real-exponent')
    stats.case((path, c), nontrivial=nontrivial(c), classes=cls,
               sample={"path": path, "value": show(c)[:200]})
    case = {"path": path, "value": c, "text": show(c)[:300]}
    if r is not None:
        report(blame(c, path, r[0]), case, expected=r[1], observed=r[2])
        return
    if path == 'src' and c[0] in 'ircsy':
        r = form_format(c)
        if r is not None and r[0] != 'reject':
            stats.classes['form-checked'] += 0
            report(f"form/{trait(c)}/{r[0]}", dict(case, kind='form'), expected=r[1], observed=r[2])
            return
        stats.classes['form-checked'] += 1


def shard(seed_value, n, with_channel):
    stats = core.Stats()
    f = core.Findings("C11")

    def make_test(report):
        @given(values(True), st.sampled_from(['src', 'py']))
        def t(c, path):
            judge(stats, report, c, path)
        return t
    core.hyp_collect(stats, make_test, seed_value, n, rounds=10, is_known=lambda k: f.match(k) is not None)

    if with_channel:
        def make_test2(report):
            @given(values(False))
            def t(c):
                r = channel_roundtrip(c)
                if r is not None and r[0] == 'reject':
                    stats.reject('value not constructible: ' + str(r[1]))
                    return
                stats.case(('chan', c), nontrivial=nontrivial(c), classes=['path:channel'],
                           sample={"path": "channel", "value": show(c)[:200]})
                if r is not None:
                    report(f"channel/{trait(c)}/{r[0]}", {"path": "channel", "value": c, "text": show(c)[:300]},
                           expected=r[1], observed=r[2])
            return t
        core.hyp_collect(stats, make_test2, seed_value + 7, max(50, n // 10), rounds=6,
                         is_known=lambda k: f.match(k) is not None)
    return stats


def check(run):
    quick = run.tier == 'quick'
    per = 2500 if quick else 30000
    jobs = [(run.seed * 1000 + s, per, True) for s in range(12 if quick else 16)]
    run.absorb(core.pool_map('vk.c11_readwrite', 'shard', jobs))
    run.min_class_fraction = {'has-dict': 0.05, 'str-quote-or-newline': 0.03, 'real-exponent': 0.03}


def replay(case):
    out = []
    st_ = core.Stats()

    def report(fkey, case_, expected=None, observed=None, note=None):
        out.append((fkey, expected, observed))
    c = from_json(case["value"])
    if case.get("path") == 'channel':
        r = channel_roundtrip(c)
        if r is not None and r[0] != 'reject':
            out.append((f"channel/{trait(c)}/{r[0]}", r[1], r[2]))
    else:
        judge(st_, report, c, case["path"])
    return out
