"""C10 - a dictionary behaves as a finite map under any sequence of operations.

Hypothesis rule-based state machine generating operation tuples; a plain `World` executes each
operation as Klong source against one interpreter and against a Python dict per alias group
(the oracle) - the same World re-executes a saved history in replay.  DESIGN.md 3/C10.
"""
from hypothesis import strategies as st
from hypothesis.stateful import RuleBasedStateMachine, rule, invariant, precondition

from . import core
from .canon import to_canon, render, show, from_json, I, R, C, S, Y, L

LEVEL = "exploration"
RULE = ("history (<=30 steps, Hypothesis rule-based machine) over: create from literal, d,[k v] and [k v],d (k,,v for function/dictionary values), d?k, "
        "k_d, #d, {x}'d, alias e::d, literal re-evaluated inside a function, update through a function argument (direct call, @, Each, Each-Left); keys "
        "of every hashable kind (ints, fractional reals, characters, strings of length 0 or >=2, symbols), values of "
        "every kind incl. 0, [], \"\", lists, dictionaries, functions; non-trivial = history has an overwrite after a "
        "remove, or an update through an alias, or a literal evaluated twice with a mutation in between; distinct by history")
ASSUMPTIONS = [
    "d@k is not judged: the reference defines At/Index for lists and strings only (for a real key klongpy returns the dictionary itself)",
    "numeric kinds are compared with Match semantics (2 ~ 2.0): Join coerces a numeric [k v] tuple to one kind, which is C01's concern",
    "keys that collide as Python hash keys while distinct in Klong (1 vs 1.0, 0ca vs \"a\") are never both generated",
    "pairs delivered by f'd are compared loosely (a character may arrive as a 1-character string inside the pair array)",
]

KEYS = [I(0), I(1), I(-3), I(42), R(1.5), R(-0.25), C('a'), C('b'), S('ab'), S('key two'), S(''), Y('s'), Y('foo')]
VALS = [I(0), I(7), I(-1), R(2.5), R(0.0), S(''), S('v'), S('hello "q"'), C('z'), Y('sym'), L(), L(I(1), I(2)), L(I(1), L(I(2), S('x'))),
        L(S('a'), S('b')), ('f', 1)]
NAMES = ['d0', 'd1', 'd2', 'd3']


def nkey(c):
    """model key: numbers by value (Join may coerce int<->real)"""
    if c[0] in 'ir':
        return ('n', float(c[1]))
    return c


def loose(a, b):
    """Match-like equality: numeric kind ignored; char ~ 1-char string; lists elementwise."""
    if a[0] in 'ir' and b[0] in 'ir':
        return float(a[1]) == float(b[1])
    if a[0] in 'cs' and b[0] in 'cs' and a[0] != b[0]:
        return a[1] == b[1] and len(a[1]) == 1
    if a[0] == 'l' and b[0] == 'l':
        return len(a[1]) == len(b[1]) and all(loose(x, y) for x, y in zip(a[1], b[1]))
    if a[0] == 'd' and b[0] == 'd':
        da = {nkey(k): v for k, v in a[1]}
        db = {nkey(k): v for k, v in b[1]}
        return da.keys() == db.keys() and all(loose(da[k], db[k]) for k in da)
    return a == b


class World:
    """Executes operation tuples against klongpy and the dict model; collects failures."""

    def __init__(self):
        from klongpy import KlongInterpreter
        self.k = KlongInterpreter()
        self.k('fn1::{x+1}')
        self.k('put::{x,y}')
        self.group = {}        # variable -> group id
        self.model = {}        # group id -> {nkey: (key canon, value)}; value canon or ('ref', gid)
        self.next_gid = 0
        self.ops = []
        self.texts = []
        self.flags = set()
        self.removed = set()
        self.lit = None
        self.lit_groups = set()
        self.lit_mutated = False
        self.fails = []

    # ------------------------------------------------------------------ helpers
    def ev(self, text):
        self.texts.append(text)
        return self.k(text)

    def fail(self, kind, expected, observed):
        self.fails.append((kind, expected, observed))

    def newgroup(self, pairs):
        gid = self.next_gid
        self.next_gid += 1
        self.model[gid] = {nkey(k): (k, v) for k, v in pairs}
        return gid

    def plain(self, v):
        if v[0] == 'ref':
            return ('d', tuple((kk, self.plain(vv)) for kk, vv in self.model[v[1]].values()))
        return v

    def reaches(self, src, dst, seen=None):
        seen = seen or set()
        if src == dst:
            return True
        if src in seen:
            return False
        seen.add(src)
        return any(v[0] == 'ref' and self.reaches(v[1], dst, seen) for _, v in self.model[src].values())

    def check_value(self, what, got, want):
        want = self.plain(want)
        if not loose(got, want):
            self.fail('value/' + what, show(want), show(got))

    @staticmethod
    def lit_text(pairs):
        return ':{' + ' '.join('[' + render(k, True) + ' ' + render(v, True) + ']' for k, v in pairs) + '}'

    # ------------------------------------------------------------------ operations
    def apply(self, op):
        self.ops.append(op)
        kind = op[0]
        if kind == 'create':
            _, name, pairs = op
            self.ev(name + '::' + self.lit_text(pairs))
            self.group[name] = self.newgroup(pairs)
        elif kind == 'put':
            _, name, k, v, side = op
            gid = self.group[name]
            if v[0] == 'dictvar':
                other = v[1]
                if other not in self.group or self.reaches(self.group[other], gid):
                    return          # would build a dictionary that contains itself
                vt, mv = other, ('ref', self.group[other])
            elif v == ('f', 1):
                vt, mv = 'fn1', v
            else:
                vt, mv = render(v), v
            # the statement's own form d,[k v]; a function or dictionary value cannot stand in a list
            # literal, so the tuple is then built with Join (k,,v)
            if v[0] in ('dictvar', 'f'):
                tup = f"({render(k)},,{vt})"
            else:
                tup = '[' + render(k, True) + ' ' + render(v, True) + ']'
            if side == 'right':
                self.ev(f"{name},{tup}")
            elif side == 'left':
                self.ev(f"{tup},{name}")
            elif side == 'fn':
                self.ev(f"put({name};{tup})")
            elif side == 'apply':           # the dictionary reaches the function through @
                self.ev(f"{{x,{tup}}}@{name}")
            elif side == 'each':            # ... as an element of a list, through Each
                self.ev(f"{{x,{tup}}}'(,{name})")
            elif side == 'eachleft':        # ... as the fixed left operand of Each-Left
                self.ev(f"{name},:\\(,{tup})")
            else:
                raise ValueError(side)
            nk = nkey(k)
            if (gid, nk) in self.removed:
                self.flags.add('overwrite-after-remove')
            if sum(1 for g in self.group.values() if g == gid) > 1:
                self.flags.add('update-through-alias')
            if gid in self.lit_groups:
                self.lit_mutated = True
            self.model[gid][nk] = (k, mv)
        elif kind == 'remove':
            _, name, k = op
            gid = self.group[name]
            self.ev(f"{render(k)}_{name}")
            if nkey(k) in self.model[gid]:
                del self.model[gid][nkey(k)]
                self.removed.add((gid, nkey(k)))
                if gid in self.lit_groups:
                    self.lit_mutated = True
        elif kind == 'lookup':
            _, name, k, how = op
            ent = self.model[self.group[name]].get(nkey(k))
            if ent is None:
                r = self.ev(f":_{name}?{render(k)}")
                if to_canon(r) != ('i', 1):
                    self.fail('missing-key-not-undefined', ':_d?k = 1', show(to_canon(r)))
            else:
                r = self.ev(f"{name}{'?' if how == 'find' else '@'}{render(k)}")
                self.check_value(how, to_canon(r), ent[1])
        elif kind == 'alias':
            _, new, name = op
            self.ev(f"{new}::{name}")
            self.group[new] = self.group[name]
        elif kind == 'define_mk':
            _, pairs = op
            self.ev('mk::{' + self.lit_text(pairs) + '}')
            self.lit = pairs
            self.lit_groups = set()
            self.lit_mutated = False
        elif kind == 'call_mk':
            _, name = op
            self.ev(f"{name}::mk()")
            gid = self.newgroup(self.lit)
            self.group[name] = gid
            if self.lit_mutated:
                self.flags.add('literal-reevaluated-after-mutation')
            self.lit_groups.add(gid)
        else:
            raise ValueError(op)

    # ------------------------------------------------------------------ invariant
    def check(self):
        for name in sorted(self.group):
            m = self.model[self.group[name]]
            r = to_canon(self.k(f"#{name}"))
            if r != ('i', len(m)):
                return self.fail('size', len(m), show(r) + f' for {name}')
            for nk, (kc, vc) in m.items():
                n0 = len(self.fails)
                self.check_value('find-after-step', to_canon(self.k(f"{name}?{render(kc)}")), vc)
                if len(self.fails) > n0:
                    return
            absent = next((kk for kk in KEYS if nkey(kk) not in m), None)
            if absent is not None:
                r = to_canon(self.k(f":_{name}?{render(absent)}"))
                if r != ('i', 1):
                    return self.fail('absent-key-defined', ':undefined for ' + show(absent),
                                     show(to_canon(self.k(f"{name}?{render(absent)}"))))
            if any(v[0] in ('ref', 'f') for _, v in m.values()):
                continue
            pairs = to_canon(self.k("{x}'" + name))
            if len(m) == 0:
                if not (pairs[0] in 'ld' and len(pairs[1]) == 0):
                    return self.fail('each/empty', '[]', show(pairs))
                continue
            got = list(pairs[1]) if pairs[0] == 'l' else None
            if got is None or len(got) != len(m):
                return self.fail('each/count', f'{len(m)} pairs', show(pairs))
            for kc, vc in m.values():
                w = ('l', (kc, vc))
                idx = next((i for i, g in enumerate(got) if g[0] == 'l' and len(g[1]) == 2 and loose(g, w)), None)
                if idx is None:
                    return self.fail('each/pair-missing', show(w), show(pairs))
                got.pop(idx)


def make_machine(stats, report):
    pair = st.tuples(st.sampled_from(KEYS), st.sampled_from(VALS[:-1]))

    class DictMachine(RuleBasedStateMachine):
        def __init__(self):
            super().__init__()
            self.w = World()
            self.reported = False

        def do(self, op):
            if self.reported:
                return
            try:
                self.w.apply(op)
            except Exception as e:
                self.w.fail('raised/' + op[0], 'operation succeeds', f'{type(e).__name__}: {e}'[:160])
            self.flush()

        def flush(self):
            if self.w.fails and not self.reported:
                self.reported = True
                kind, exp, obs = self.w.fails[0]
                report(kind, {"ops": list(self.w.ops), "klong": list(self.w.texts)}, expected=exp, observed=obs)

        @rule(name=st.sampled_from(NAMES), pairs=st.lists(pair, max_size=3, unique_by=lambda kv: nkey(kv[0])))
        def create(self, name, pairs):
            self.do(('create', name, tuple(pairs)))

        @precondition(lambda self: self.w.group)
        @rule(data=st.data(), k=st.sampled_from(KEYS), v=st.one_of(st.sampled_from(VALS), st.sampled_from(NAMES).map(lambda n: ('dictvar', n))),
              side=st.sampled_from(['right', 'left', 'fn', 'apply', 'each', 'eachleft']))
        def put(self, data, k, v, side):
            self.do(('put', data.draw(st.sampled_from(sorted(self.w.group))), k, v, side))

        @precondition(lambda self: self.w.group)
        @rule(data=st.data(), k=st.sampled_from(KEYS))
        def remove(self, data, k):
            name = data.draw(st.sampled_from(sorted(self.w.group)))
            present = [kc for kc, _ in self.w.model[self.w.group[name]].values()]
            if present and data.draw(st.booleans()):
                k = data.draw(st.sampled_from(present))
            self.do(('remove', name, k))

        @precondition(lambda self: self.w.removed)
        @rule(data=st.data(), v=st.sampled_from(VALS), side=st.sampled_from(['right', 'left']))
        def put_removed(self, data, v, side):
            gid, nk = data.draw(st.sampled_from(sorted(self.w.removed, key=repr)))
            names = sorted(n for n, g in self.w.group.items() if g == gid)
            k = next((kk for kk in KEYS if nkey(kk) == nk), None)
            if names and k is not None:
                self.do(('put', names[0], k, v, side))

        @precondition(lambda self: self.w.group)
        @rule(data=st.data(), k=st.sampled_from(KEYS), how=st.sampled_from(['find']))
        def lookup(self, data, k, how):
            self.do(('lookup', data.draw(st.sampled_from(sorted(self.w.group))), k, how))

        @precondition(lambda self: self.w.group)
        @rule(data=st.data(), new=st.sampled_from(NAMES))
        def alias(self, data, new):
            name = data.draw(st.sampled_from(sorted(self.w.group)))
            if new != name:
                self.do(('alias', new, name))

        @rule(pairs=st.lists(pair, min_size=1, max_size=2, unique_by=lambda kv: nkey(kv[0])))
        def define_mk(self, pairs):
            self.do(('define_mk', tuple(pairs)))

        @precondition(lambda self: self.w.lit is not None)
        @rule(name=st.sampled_from(NAMES))
        def call_mk(self, name):
            self.do(('call_mk', name))

        @invariant()
        def agrees(self):
            if self.reported:
                return
            try:
                self.w.check()
            except Exception as e:
                self.w.fail('raised/invariant', 'observation succeeds', f'{type(e).__name__}: {e}'[:160])
            self.flush()

        def teardown(self):
            w = self.w
            stats.extra['steps'] = stats.extra.get('steps', 0) + len(w.ops)
            cls = ['flag:' + f for f in sorted(w.flags)]
            if len(set(w.group.values())) < len(w.group):
                cls.append('has-alias')
            stats.case(tuple(w.texts), nontrivial=bool(w.flags), classes=cls,
                       sample={"klong": w.texts[:30]} if len(w.texts) >= 4 else None)

    return DictMachine


def run_ops(ops):
    w = World()
    for op in ops:
        try:
            w.apply(op)
            w.check()
        except Exception as e:
            w.fail('raised/' + str(op[0]), 'operation succeeds', f'{type(e).__name__}: {e}'[:160])
        if w.fails:
            break
    return w


def minimise(fkey, case):
    ops = core.ddmin_list(list(case["ops"]), lambda c: (lambda w: bool(w.fails) and w.fails[0][0] == fkey)(run_ops(c)), max_tests=150)
    w = run_ops(ops)
    case = {"ops": list(w.ops), "klong": list(w.texts)}
    if w.fails:
        return case, w.fails[0][1], w.fails[0][2]
    return case


def shard(seed_value, n, steps):
    stats = core.Stats()
    f = core.Findings("C10")
    core.run_machine_collect(stats, lambda report: make_machine(stats, report), seed_value, n, steps, rounds=6,
                             is_known=lambda k: f.match(k) is not None, minimise=minimise)
    return stats


def check(run):
    quick = run.tier == 'quick'
    per = 400 if quick else 4000
    run.absorb(core.pool_map('vk.c10_dict', 'shard', [(run.seed * 1000 + i, per, 30) for i in range(16)]))
    run.min_class_fraction = {'flag:update-through-alias': 0.1, 'flag:overwrite-after-remove': 0.03}


def replay(case):
    w = World()
    for op in from_json(case["ops"]):
        try:
            w.apply(op)
            w.check()
        except Exception as e:
            w.fail('raised/' + str(op[0]), 'operation succeeds', f'{type(e).__name__}: {e}'[:160])
        if w.fails:
            break
    return [(f[0], f[1], f[2]) for f in w.fails[:3]]
