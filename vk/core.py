"""Common machinery: environment, statistics, evidence, replay files, known findings,
Hypothesis driver with collect-and-exclude, process-pool sharding.

Contract (DESIGN.md 2.2): exit 0 = held (maybe KNOWN-FINDING lines); exit 1 = at least one
unlisted violation, each printed as ``VIOLATION property=<id> replay=<path>``; exit 2 =
harness error, printed as HARNESS-ERROR and never as a violation.
"""
import collections
import fnmatch
import hashlib
import json
import os
import sys
import time
import traceback

VERIF_DIR = os.path.dirname(os.path.dirname(os.path.abspath(__file__)))
REPO_DIR = os.environ.get("VK_REPO", "/repo")


def setup_repo_path():
    """Make `import klongpy` resolve to the working tree under test."""
    if REPO_DIR not in sys.path:
        sys.path.insert(0, REPO_DIR)
    import warnings
    warnings.filterwarnings("ignore", category=SyntaxWarning)
    warnings.filterwarnings("ignore", category=RuntimeWarning)
    warnings.filterwarnings("ignore", category=DeprecationWarning)
    warnings.filterwarnings("ignore", category=UserWarning)
    import klongpy  # noqa
    got = os.path.dirname(os.path.dirname(os.path.abspath(klongpy.__file__)))
    if os.path.realpath(got) != os.path.realpath(REPO_DIR):
        raise HarnessError(f"klongpy imported from {got}, expected {REPO_DIR}")


class HarnessError(Exception):
    pass


def seed():
    try:
        return int(os.environ.get("VERIF_SEED", "1"))
    except ValueError:
        return 1


def tier(cli=None):
    t = os.environ.get("VERIF_TIER") or cli or "quick"
    return t if t in ("quick", "thorough") else "quick"


def h8(obj):
    """Stable 8-byte hash of a JSON-able / repr-able case key."""
    if not isinstance(obj, (str, bytes)):
        obj = repr(obj)
    if isinstance(obj, str):
        obj = obj.encode("utf-8", "surrogatepass")
    return hashlib.blake2b(obj, digest_size=8).digest()


def jsonable(x):
    if isinstance(x, (str, int, bool)) or x is None:
        return x
    if isinstance(x, float):
        if x != x or x in (float("inf"), float("-inf")):
            return repr(x)
        return x
    if isinstance(x, bytes):
        return {"__bytes__": x.hex()}
    if isinstance(x, dict):
        return {str(k): jsonable(v) for k, v in x.items()}
    if isinstance(x, (list, tuple, set, frozenset)):
        return [jsonable(v) for v in x]
    return repr(x)


class Stats:
    """Mergeable per-shard statistics."""
    MAX_SAMPLES = 12

    def __init__(self):
        self.evaluations = 0
        self.nontrivial = set()
        self.classes = collections.Counter()
        self.rejected = collections.Counter()
        self.excluded = collections.Counter()
        self.samples = []
        self.failures = {}          # fkey -> failure dict (smallest / first seen)
        self.extra = {}
        self._nsample = 0

    def case(self, key, nontrivial=True, classes=(), sample=None):
        """Record one executed case. key identifies the case for distinct counting."""
        self.evaluations += 1
        if nontrivial:
            self.nontrivial.add(h8(key))
        for c in classes:
            self.classes[c] += 1
        if sample is not None:
            self._nsample += 1
            n = self._nsample
            if len(self.samples) < self.MAX_SAMPLES:
                self.samples.append(sample)
            else:
                # deterministic reservoir: keep cases whose ordinal is a power-of-two-ish stride
                j = int.from_bytes(h8(("rs", n)), "big") % n
                if j < self.MAX_SAMPLES // 2:
                    self.samples[self.MAX_SAMPLES // 2 + j] = sample

    def reject(self, reason):
        self.rejected[reason] += 1

    def fail(self, fkey, case, expected=None, observed=None, note=None, size=None):
        """Record a property failure under finding key fkey (kept: smallest size / first)."""
        f = {"key": fkey, "case": case, "expected": expected, "observed": observed}
        if note:
            f["note"] = note
        f["_size"] = size if size is not None else len(repr(case))
        old = self.failures.get(fkey)
        if old is None or f["_size"] < old["_size"]:
            f["_count"] = (old or {}).get("_count", 0) + 1
            self.failures[fkey] = f
        else:
            old["_count"] = old.get("_count", 1) + 1

    def merge(self, o):
        self.evaluations += o.evaluations
        self.nontrivial |= o.nontrivial
        self.classes.update(o.classes)
        self.rejected.update(o.rejected)
        self.excluded.update(o.excluded)
        for s in o.samples:
            if len(self.samples) < 2 * self.MAX_SAMPLES:
                self.samples.append(s)
        for k, f in o.failures.items():
            old = self.failures.get(k)
            if old is None:
                self.failures[k] = f
            else:
                cnt = old.get("_count", 1) + f.get("_count", 1)
                best = f if f["_size"] < old["_size"] else old
                best["_count"] = cnt
                self.failures[k] = best
        for k, v in o.extra.items():
            if k.startswith('max_'):
                if k not in self.extra or v > self.extra[k]:
                    self.extra[k] = v
            elif isinstance(v, (int, float)) and isinstance(self.extra.get(k, 0), (int, float)):
                self.extra[k] = self.extra.get(k, 0) + v
            else:
                self.extra.setdefault(k, v)
        return self


# --------------------------------------------------------------------------- findings

class Findings:
    """known_findings.json: committed, read-only at run time (DESIGN.md 2.6)."""

    def __init__(self, pid):
        self.pid = pid
        path = os.path.join(VERIF_DIR, "known_findings.json")
        self.entries = []
        if os.path.exists(path):
            with open(path) as fh:
                data = json.load(fh)
            self.entries = [e for e in data.get("findings", []) if e.get("property") == pid]
        self.open = [e for e in self.entries if e.get("status") == "open"]
        self.fixed = [e for e in self.entries if e.get("status") == "fixed"]

    def match(self, fkey):
        """Return the open entry listing fkey (exact, or a glob pattern ending in '*')."""
        for e in self.open:
            for k in e.get("keys", []):
                if k == fkey or (("*" in k or "?" in k or "[" in k) and fnmatch.fnmatchcase(fkey, k)):
                    return e
        return None


# --------------------------------------------------------------------------- run object

class Run:
    def __init__(self, pid, level, tier_, rule, assumptions=()):
        self.pid = pid
        self.level = level
        self.tier = tier_
        self.seed = seed()
        self.rule = rule
        self.assumptions = list(assumptions)
        self.stats = Stats()
        self.findings = Findings(pid)
        self.t0 = time.time()
        self.known_hit = collections.Counter()
        self.violations = []
        self.exhaustive = False
        self.coverage_extra = {}
        self.min_class_fraction = {}   # class -> min fraction of evaluations (harness error)

    # -- result handling
    def absorb(self, stats):
        self.stats.merge(stats)

    def finish(self):
        """Classify failures, write replays + evidence, print lines, return exit code."""
        st = self.stats
        for e in self.findings.open:
            self.known_hit.setdefault(e["id"], 0)
        for fkey in sorted(st.failures):
            f = st.failures[fkey]
            e = self.findings.match(fkey)
            if e is not None:
                self.known_hit[e["id"]] += f.get("_count", 1)
                st.excluded[e["id"]] += f.get("_count", 1)
                continue
            path = write_replay(self.pid, f)
            self.violations.append((fkey, path))
        for e in self.findings.open:
            n = self.known_hit.get(e["id"], 0)
            print(f"KNOWN-FINDING: property={self.pid} {e['id']}: {e['what']} "
                  f"[{'reproduced in %d cases' % n if n else 'not hit by this run'}]")
        for fkey, path in self.violations:
            print(f"VIOLATION property={self.pid} replay={path}")
            print(f"  key: {fkey}")
            f = st.failures[fkey]
            print(f"  case: {json.dumps(jsonable(f['case']))[:600]}")
            print(f"  expected: {json.dumps(jsonable(f['expected']))[:300]}")
            print(f"  observed: {json.dumps(jsonable(f['observed']))[:300]}")
        self.write_evidence()
        # generator health: required class fractions
        for cls, frac in self.min_class_fraction.items():
            have = st.classes.get(cls, 0) / max(1, st.evaluations)
            if have < frac and not self.violations:     # failures cut the search short and skew the mix
                raise HarnessError(f"generator health: class {cls!r} fraction {have:.4f} < {frac}")
        if len(st.nontrivial) < 2 and not self.violations:       # failures cut the search short
            raise HarnessError("fewer than 2 distinct non-trivial cases")
        print(f"{self.pid} {self.tier} seed={self.seed}: evaluations={st.evaluations} "
              f"distinct_nontrivial={len(st.nontrivial)} violations={len(self.violations)} "
              f"known_hits={sum(self.known_hit.values())} wall={time.time()-self.t0:.1f}s")
        return 1 if self.violations else 0

    def write_evidence(self):
        st = self.stats
        cov = {
            "evaluations": st.evaluations,
            "distinct_nontrivial": len(st.nontrivial),
            "rule": self.rule,
            "samples": jsonable(st.samples[:24]) or ["<none>"],
            "classes": dict(sorted(st.classes.items())),
            "rejected": dict(sorted(st.rejected.items())),
            "excluded_known": dict(sorted(st.excluded.items())),
            "exhaustive": bool(self.exhaustive),
            "violation_keys": [k for k, _ in self.violations],
        }
        for k, v in st.extra.items():
            cov.setdefault(k, jsonable(v))
        cov.update(jsonable(self.coverage_extra))
        ev = {
            "property_id": self.pid,
            "tier": self.tier,
            "seed": self.seed,
            "level": self.level,
            "coverage": cov,
            "assumptions": self.assumptions,
            "wall_s": round(time.time() - self.t0, 3),
            "violations": len(self.violations),
        }
        d = os.path.join(VERIF_DIR, "evidence")
        if os.environ.get("VK_NO_EVIDENCE"):     # mutant runs against scratch trees must not touch evidence
            d = os.path.join(os.environ.get("TMPDIR", "/tmp"), "vk_scratch_evidence")
        os.makedirs(d, exist_ok=True)
        tmp = os.path.join(d, f".{self.pid}.json.tmp")
        with open(tmp, "w") as fh:
            json.dump(ev, fh, indent=1, sort_keys=False)
            fh.write("\n")
        os.replace(tmp, os.path.join(d, f"{self.pid}.json"))


def write_replay(pid, failure):
    d = os.path.join(VERIF_DIR, "replays", pid)
    if os.environ.get("VK_NO_EVIDENCE"):
        d = os.path.join(os.environ.get("TMPDIR", "/tmp"), "vk_scratch_replays", pid)
    os.makedirs(d, exist_ok=True)
    body = {"property": pid, "key": failure["key"], "case": jsonable(failure["case"]),
            "expected": jsonable(failure.get("expected")), "observed": jsonable(failure.get("observed"))}
    if failure.get("note"):
        body["note"] = failure["note"]
    name = h8(json.dumps(body["case"], sort_keys=True) + failure["key"]).hex() + ".json"
    path = os.path.join(d, name)
    with open(path, "w") as fh:
        json.dump(body, fh, indent=1)
        fh.write("\n")
    return path


# --------------------------------------------------------------------------- hypothesis driver

def hyp_settings(max_examples, shrink=True, stateful_steps=None):
    from hypothesis import settings, HealthCheck, Phase
    phases = [Phase.explicit, Phase.generate]
    if shrink:
        phases.append(Phase.shrink)
    kw = dict(max_examples=max_examples, database=None, deadline=None, derandomize=False,
              report_multiple_bugs=False, suppress_health_check=list(HealthCheck),
              phases=tuple(phases), print_blob=False)
    if stateful_steps is not None:
        kw["stateful_step_count"] = stateful_steps
    return settings(**kw)


class Failed(Exception):
    """Raised inside a Hypothesis test body to make Hypothesis shrink a new failure."""


def hyp_collect(stats, make_test, seed_value, max_examples, rounds=6, shrink=True, is_known=None):
    """Collect-and-exclude (DESIGN.md 2.5).

    make_test(report) must return a hypothesis-decorated zero-argument test whose body calls
    ``report(fkey, case, expected, observed)`` for every failure it sees.  A failure whose
    key is already collected (or listed as known) is only counted; a new key raises so that
    Hypothesis shrinks it.  The search is restarted with the same seed until no new key
    appears (at most `rounds` times).
    """
    import hypothesis
    collected = {}
    last = {}

    def report(fkey, case, expected=None, observed=None, note=None):
        if fkey in collected or (is_known is not None and is_known(fkey)):
            stats.fail(fkey, case, expected, observed, note)
            return
        last["f"] = (fkey, case, expected, observed, note)
        raise Failed(fkey)

    for _ in range(rounds):
        test = make_test(report)
        test = hypothesis.seed(seed_value)(test)
        test = hyp_settings(max_examples, shrink=shrink)(test)
        last.clear()
        try:
            test()
            break
        except Failed:
            fkey, case, expected, observed, note = last["f"]
            collected[fkey] = True
            stats.fail(fkey, case, expected, observed, note, size=0)
        except hypothesis.errors.Flaky as e:
            # the failing example did not fail again when Hypothesis re-executed it.  The oracle did observe the failure
            # once, against the real code: for the checks that involve real threads / sockets that is a timing-dependent
            # violation and is reported as such (unshrunk); without an observed failure it is a harness problem
            if last.get("f"):
                fkey, case, expected, observed, note = last["f"]
                collected[fkey] = True
                stats.fail(fkey, case, expected, observed, (note or '') + ' [not reproduced on immediate re-execution: timing-dependent]', size=0)
                continue
            raise HarnessError(f"flaky test body: {e}")
    return collected


def ddmin_list(items, still_fails, max_tests=300):
    """Greedy delta-debugging over a list: drop chunks while still_fails(candidate) holds."""
    items = list(items)
    tests = 0
    chunk = max(1, len(items) // 2)
    while chunk >= 1 and tests < max_tests:
        i = 0
        changed = False
        while i < len(items) and tests < max_tests:
            cand = items[:i] + items[i + chunk:]
            tests += 1
            ok = False
            if cand:
                try:
                    ok = still_fails(cand)
                except Exception:
                    ok = False
            if ok:
                items = cand
                changed = True
            else:
                i += chunk
        if not changed:
            chunk //= 2
    return items


def run_machine_collect(stats, machine_factory, seed_value, max_examples, steps, rounds=5, shrink=False,
                        is_known=None, minimise=None):
    """Same as hyp_collect for RuleBasedStateMachine classes.

    machine_factory(report) returns a fresh machine class whose rules call report(...).
    Histories are not shrunk by Hypothesis (its stateful shrinker can take minutes per failure);
    instead `minimise(fkey, case) -> case` (usually a ddmin over the recorded operation list,
    re-executed by the property's plain replay function) produces the minimal reproduction."""
    import hypothesis
    from hypothesis.stateful import run_state_machine_as_test
    collected = {}
    last = {}

    def report(fkey, case, expected=None, observed=None, note=None):
        if fkey in collected or (is_known is not None and is_known(fkey)):
            stats.fail(fkey, case, expected, observed, note)
            return
        last["f"] = (fkey, case, expected, observed, note)
        raise Failed(fkey)

    for _ in range(rounds):
        cls = machine_factory(report)
        cls = hypothesis.seed(seed_value)(cls)
        last.clear()
        try:
            run_state_machine_as_test(cls, settings=hyp_settings(max_examples, shrink=shrink,
                                                                 stateful_steps=steps))
            break
        except Failed:
            fkey, case, expected, observed, note = last["f"]
            collected[fkey] = True
            if minimise is not None:
                try:
                    m = minimise(fkey, case)
                    if isinstance(m, tuple):
                        case, expected, observed = m
                    else:
                        case = m
                except Exception:
                    pass
            stats.fail(fkey, case, expected, observed, note, size=0)
        except hypothesis.errors.Flaky as e:
            raise HarnessError(f"flaky state machine: {e}")
    return collected


# --------------------------------------------------------------------------- sharding

def _shard_entry(args):
    modname, fname, shard_args, mem_gb = args
    try:
        import importlib
        if mem_gb:
            limit_memory(mem_gb)
        setup_repo_path()
        mod = importlib.import_module(modname)
        st = getattr(mod, fname)(*shard_args)
        return ("ok", st)
    except BaseException as e:  # noqa
        return ("err", f"{type(e).__name__}: {e}\n{traceback.format_exc()}")


def pool_map(modname, fname, shard_args_list, procs=None, mem_gb=6):
    """Run mod.fname(*args) for each args tuple in a process pool; return merged Stats.
    mem_gb: per-worker address-space cap (None = no cap; DuckDB cannot start under a cap)."""
    import multiprocessing as mp
    from concurrent.futures import ProcessPoolExecutor
    from concurrent.futures.process import BrokenProcessPool
    procs = procs or min(16, os.cpu_count() or 1, max(1, len(shard_args_list)))
    merged = Stats()
    jobs = [(modname, fname, a, mem_gb) for a in shard_args_list]
    if procs == 1 or len(jobs) == 1:
        results = [_shard_entry(j[:3] + (None,)) for j in jobs]
    else:
        ctx = mp.get_context("spawn")
        try:
            with ProcessPoolExecutor(max_workers=procs, mp_context=ctx) as pool:
                results = list(pool.map(_shard_entry, jobs))
        except BrokenProcessPool as e:
            raise HarnessError(f"a worker process died ({modname}.{fname}): {e}")
    for kind, val in results:
        if kind == "err":
            raise HarnessError("shard failed: " + val)
        merged.merge(val)
    return merged


# --------------------------------------------------------------------------- shards under a wall-clock watchdog

_HB = {"fd": None}


def heartbeat(text):
    """Called by a shard before each case: records (time, case text) in the shard's heartbeat file so that the parent can
    tell which case a worker is stuck in.  A loop inside C code (e.g. a regular expression) produces no trace events,
    cannot be interrupted by a signal handler and holds the GIL, so only another process can see it."""
    fd = _HB["fd"]
    if fd is None:
        return
    data = (repr(time.time()) + '\n' + text[:4000]).encode('utf-8', 'replace')
    os.pwrite(fd, data + b'\0' * max(0, 64 - len(data)), 0)
    os.ftruncate(fd, max(len(data), 64))


def _wd_entry(modname, fname, shard_args, mem_gb, hb_path, out_path):
    import pickle
    _HB["fd"] = os.open(hb_path, os.O_RDWR | os.O_CREAT, 0o600)
    res = _shard_entry((modname, fname, shard_args, mem_gb))
    with open(out_path + '.tmp', 'wb') as f:
        pickle.dump(res, f)
    os.replace(out_path + '.tmp', out_path)


def watchdog_map(modname, fname, shard_args_list, on_hang, procs=16, mem_gb=6, stale_s=90.0):
    """Like pool_map, but every job is its own process with a heartbeat file; a job whose current case is older than
    stale_s is killed and on_hang(stats, text) is called with the text it was stuck in (the rest of that job is lost and
    counted in extra['jobs_cut_short'])."""
    import multiprocessing as mp
    import pickle
    import shutil
    import tempfile
    ctx = mp.get_context("spawn")
    root = tempfile.mkdtemp(prefix='vk_wd_')
    merged = Stats()
    pending = list(enumerate(shard_args_list))
    running = {}
    try:
        while pending or running:
            while pending and len(running) < procs:
                i, a = pending.pop(0)
                hb, out = os.path.join(root, f'hb{i}'), os.path.join(root, f'out{i}')
                pr = ctx.Process(target=_wd_entry, args=(modname, fname, a, mem_gb, hb, out), daemon=True)
                pr.start()
                running[i] = (pr, hb, out, time.time())
            time.sleep(0.5)
            for i in list(running):
                pr, hb, out, t0 = running[i]
                if not pr.is_alive():
                    pr.join()
                    del running[i]
                    if not os.path.exists(out):
                        raise HarnessError(f"a worker process died ({modname}.{fname}, job {i}, exit {pr.exitcode})")
                    kind, val = pickle.load(open(out, 'rb'))
                    if kind == "err":
                        raise HarnessError("shard failed: " + val)
                    merged.merge(val)
                    continue
                try:
                    raw = open(hb, 'rb').read().rstrip(b'\0').decode('utf-8', 'replace')
                    ts, _, text = raw.partition('\n')
                    age = time.time() - float(ts)
                except (OSError, ValueError):
                    continue            # no case started yet (imports)
                if age > stale_s:
                    pr.kill()
                    pr.join()
                    del running[i]
                    merged.extra['jobs_cut_short'] = merged.extra.get('jobs_cut_short', 0) + 1
                    on_hang(merged, text)
    finally:
        for pr, *_ in running.values():
            try:
                pr.kill()
            except Exception:
                pass
        shutil.rmtree(root, ignore_errors=True)
    return merged


# --------------------------------------------------------------------------- misc helpers

def limit_memory(gb=6):
    """Per-process address-space cap so a runaway case cannot exhaust the sandbox."""
    try:
        import resource
        resource.setrlimit(resource.RLIMIT_AS, (gb << 30, gb << 30))
    except Exception:
        pass


class CaseTimeout(BaseException):
    pass


class case_timeout:
    """SIGALRM-based guard (main thread only). A timeout means 'inconclusive', never a violation."""

    def __init__(self, seconds):
        self.seconds = seconds

    def _raise(self, *a):
        raise CaseTimeout()

    def __enter__(self):
        import signal
        self.old = signal.signal(signal.SIGALRM, self._raise)
        signal.setitimer(signal.ITIMER_REAL, self.seconds)
        return self

    def __exit__(self, *exc):
        import signal
        signal.setitimer(signal.ITIMER_REAL, 0)
        signal.signal(signal.SIGALRM, self.old)
        return False


class Budget:
    """Wall-clock budget: hitting it means 'inconclusive for the rest', never a violation."""

    def __init__(self, seconds):
        self.t_end = time.time() + seconds

    def left(self):
        return self.t_end - time.time()

    def ok(self):
        return time.time() < self.t_end


def short(x, n=200):
    s = x if isinstance(x, str) else repr(x)
    return s if len(s) <= n else s[:n] + "..."
