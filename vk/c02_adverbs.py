"""C02 - adverbs equal their definitional expansion for every verb and operand.

Oracle: the definition, executed - every plain application of the verb is evaluated as its own
piece of source text in klongpy (`F(a1;a2)` / `(a1)OP(a2)`) and the harness assembles the result
the way the adverb's reference text says (fold, prefixes, list of results, pairs, iteration,
fixpoint by Match).  Two-adverb chains are expanded recursively (the first adverb and the verb
form a new monadic verb).  DESIGN.md 3/C02.
"""
import itertools

from hypothesis import given, strategies as st

from . import core
from . import refmodel as rm
from .canon import to_canon, ceq, render, renderable, show, shape_class, from_json, I, R, C, S, L, LL, D

LEVEL = "exploration"
RULE = ("case = adverb (each, each-2, each-left, each-right, each-pair, each-index, over, over-neutral, scan-over, "
        "scan-over-neutral, iterate, scan-iterating, converge, while, scan-converging, scan-while) x verb form (operators "
        "+ - * % & | , = < > ^ ! and monadic - # , | * ~ _, equivalent / non-commutative / non-associative lambdas, a named "
        "function, a projection, Python callables) x operands (atoms, strings, vectors of length 0..5, matrices, nested lists, "
        "dictionaries), plus all two-adverb chains whose second adverb is monadic (first adverb each, over, scan, each-pair, each-index; and converge / scan-converging of a converging verb followed by each); a case is judged only when every plain "
        "application of its expansion returns a value; non-trivial = the operand has length>=2 or rank>=2 or is a string / "
        "dictionary and the verb is applied at least twice; distinct by (adverb(s), verb form, operands)")
ASSUMPTIONS = [
    "plain applications are evaluated by klongpy itself, each as its own source text with literal operands",
    "assembled lists are compared structurally with numbers by value (list assembly coerces numeric kinds: C01's systemic finding)",
    "converge / while functions come from a list that terminates within 40 steps on the operand set",
]

_K = {}


def interp(recycle=False):
    """the shared interpreter; it is only replaced between cases (recycle=True at the start of judge), never inside one"""
    from klongpy import KlongInterpreter
    ent = _K.get('k')
    if ent is None or (recycle and ent[1] > 3000):
        k = KlongInterpreter()
        k('nf1::{(x*2)+1}')
        k('nf2::{(2*x)-y}')
        k('pj::{x+y*z}(;;2)')
        k['py1'] = lambda x: x * 10 + 1
        k['py2'] = lambda x, y: x * 10 + y
        ent = [k, 0]
        _K['k'] = ent
    ent[1] += 1
    return ent[0]


# named verbs and what they are temporarily rebound to: name -> (name, other definition, original definition)
REBIND = {'nf1': ('nf1', '{x-3}', '{(x*2)+1}'), 'nf2': ('nf2', '{x+y+y}', '{(2*x)-y}'),
          'py1': ('py1', (lambda x: x * 2 - 1), (lambda x: x * 10 + 1)), 'py2': ('py2', (lambda x, y: x + y * 3), (lambda x, y: x * 10 + y))}


class Undef(Exception):
    """a plain application raised / produced something that cannot be fed on: the expansion is not defined"""


# verb forms: (kind, text); kind 'op1'/'op2' operator, 'fn1'/'fn2' function text or name
MONADIC = [('op1', '-'), ('op1', '#'), ('op1', ','), ('op1', '|'), ('op1', '*'), ('op1', '~'),
           ('fn1', '{x*2}'), ('fn1', '{x,x}'), ('fn1', '{-x}'), ('fn1', 'nf1'), ('fn1', 'py1'), ('fn1', '{#x}'), ('op1', '_')]
DYADIC = [('op2', '+'), ('op2', '-'), ('op2', '*'), ('op2', '%'), ('op2', '&'), ('op2', '|'), ('op2', ','), ('op2', '='),
          ('op2', '<'), ('op2', '>'), ('op2', '^'), ('op2', '!'),
          ('fn2', '{x+y}'), ('fn2', '{x-y}'), ('fn2', '{(2*x)+y}'), ('fn2', '{x,,y}'), ('fn2', '{x%y}'), ('fn2', '{x|y}'),
          ('fn2', 'nf2'), ('fn2', 'pj'), ('fn2', 'py2')]
CONV = [('fn1', '{_x%2}'), ('op1chain', ',/'), ('fn1', '{:[x>10;x;x+3]}'), ('fn1', '{x|3}'), ('fn1', '{x&2}'), ('op1', '_'), ('op1', '-'),
        ('fn1', '{_x}')]
WHILE = [(('fn1', '{x<20}'), ('fn1', '{x*2}')), (('fn1', '{x<10}'), ('fn1', '{x+3}')), (('fn1', '{(#x)<4}'), ('fn1', '{1,x}')),
         (('fn1', '{x;0}'), ('fn1', '{x}'))]


def vtext(v):
    return v[1]


def apply1(v, a):
    """plain monadic application, evaluated by klongpy"""
    if callable(v):
        return v(a)
    if not renderable(a):
        raise Undef()
    in_domain(v, a)
    t = v[1] + render(a) if v[0] in ('op1', 'op1chain') else f'{v[1]}({render(a)})'
    return run(t)


def apply2(v, a, b):
    if callable(v):
        return v(a, b)
    if not (renderable(a) and renderable(b)):
        raise Undef()
    in_domain(v, a, b)
    t = render(a) + v[1] + render(b) if v[0] == 'op2' else f'{v[1]}({render(a)};{render(b)})'
    return run(t)


def _numeric(c):
    if c[0] == 'l':
        return all(_numeric(x) for x in c[1])
    return c[0] in 'ir'


STRUCTURAL_FNS = {'{x,x}', '{x,,y}', '{#x}', '{1,x}', '{x}', '{(#x)<4}', '{x;0}'}


def in_domain(v, *args):
    """every plain application must lie inside the verb's reference domain (C01's domain predicates): operator
    verbs are checked with the reference model; function forms made of arithmetic take numeric operands only"""
    if v[0] == 'op1':
        try:
            rm.monad(v[1], args[0])
        except rm.Outside:
            raise Undef()
    elif v[0] == 'op2':
        try:
            rm.dyad(v[1], args[0], args[1])
        except rm.Outside:
            raise Undef()
    elif v[0] in ('fn1', 'fn2') and v[1] not in STRUCTURAL_FNS:
        if not all(_numeric(a) for a in args):
            raise Undef()


def run(text):
    if len(text) > 4000:
        raise Undef()       # runaway growth (e.g. a doubling function under converge): not a terminating case
    k = interp()
    try:
        with core.case_timeout(10):
            r = to_canon(k(text))
    except core.CaseTimeout:
        raise Undef()
    except RecursionError:
        raise Undef()
    except Exception:
        raise Undef()
    return r


def members(a):
    if a[0] == 'l':
        return list(a[1])
    if a[0] == 's':
        return [C(ch) for ch in a[1]]
    return None


def assemble(results, source=None):
    """list of results; Each over a string whose results are all characters forms a string"""
    if source is not None and source[0] == 's' and results and all(r[0] == 'c' for r in results):
        return S(''.join(r[1] for r in results))
    return LL(results)


def matches(a, b):
    try:
        return rm.match(a, b)
    except rm.Outside:
        return a == b


# ----------------------------------------------------------------------------- expansions

def x_each(f, a):
    if a[0] == 'd':
        return ('multiset', [apply1(f, LL([k, v])) for k, v in a[1]])
    if rm.isempty(a):
        return a
    m = members(a)
    if m is None:
        return apply1(f, a)
    return assemble([apply1(f, x) for x in m], a)


def x_each2(f, a, b):
    ma, mb = members(a), members(b)
    if (ma is not None and not ma) or (mb is not None and not mb):
        return LL([])
    if ma is None and mb is None:
        return apply2(f, a, b)
    if ma is None or mb is None:
        raise Undef()          # atom with list: the reference does not say
    return assemble([apply2(f, x, y) for x, y in zip(ma, mb)])


def x_each_left(f, a, b):
    mb = members(b)
    if mb is None:
        return apply2(f, a, b)
    if not mb:
        return LL([])
    return assemble([apply2(f, a, y) for y in mb])


def x_each_right(f, a, b):
    mb = members(b)
    if mb is None:
        return apply2(f, b, a)
    if not mb:
        return LL([])
    return assemble([apply2(f, y, a) for y in mb])


def x_each_pair(f, a):
    m = members(a)
    if m is None or len(m) <= 1:
        return a
    return assemble([apply2(f, m[i], m[i + 1]) for i in range(len(m) - 1)])


def x_each_index(f, a):
    m = members(a)
    if m is None:
        raise Undef()
    if not m:
        return a
    return assemble([apply1(f, LL([I(i), x])) for i, x in enumerate(m)])


def x_over(f, a):
    m = members(a)
    if m is None or not m:
        return a
    acc = m[0]
    for x in m[1:]:
        acc = apply2(f, acc, x)
    return acc


def x_over_neutral(f, a, b):
    mb = members(b)
    if mb is not None and not mb:
        return a
    if mb is None:
        if members(a) is None or rm.isempty(a):
            return apply2(f, a, b)
        raise Undef()
    if members(a) is not None and not rm.isempty(a):
        raise Undef()      # "a f/b equals f/a,b" with a list a: Join semantics - not expanded here
    acc = a
    for x in mb:
        acc = apply2(f, acc, x)
    return acc


def x_scan(f, a):
    m = members(a)
    if m is None:
        return LL([a])          # "+\\1 --> [1]"
    if not m:
        return a
    out = [m[0]]
    for x in m[1:]:
        out.append(apply2(f, out[-1], x))
    return LL(out)


def x_scan_neutral(f, a, b):
    mb = members(b)
    if mb is None:
        return LL([a, apply2(f, a, b)])
    if not mb:
        return a                 # suite: 5{(,x),y}\\[] --> 5
    if members(a) is not None and not rm.isempty(a):
        raise Undef()
    out = [a]
    for x in mb:
        out.append(apply2(f, out[-1], x))
    return LL(out)


def x_iterate(f, n, a):
    for _ in range(n):
        a = apply1(f, a)
    return a


def x_scan_iterating(f, n, a):
    if n == 0:
        return a                 # suite: 0,\\*1 --> 1
    out = [a]
    for _ in range(n):
        out.append(apply1(f, out[-1]))
    return LL(out)


def orbit(f, a, limit=40):
    out = [a]
    for _ in range(limit):
        nxt = apply1(f, out[-1])
        if matches(out[-1], nxt):
            return out
        out.append(nxt)
        if len(out) > 4 and _has_reals(nxt):
            # a real-valued orbit that closes in on its limit: when two successive results count as "the same" depends on a
            # comparison tolerance the reference does not state - not judged
            raise Undef()
    raise Undef()


def x_converge(f, a):
    return orbit(f, a)[-1]


def x_scan_converging(f, a):
    return LL(orbit(f, a))


def truth(c):
    if c[0] in 'ir':
        return c[1] != 0
    return not rm.isempty(c)


def x_while(c, f, a, limit=40):
    for _ in range(limit):
        if not truth(apply1(c, a)):
            return a
        a = apply1(f, a)
    raise Undef()


def x_scan_while(c, f, a, limit=40):
    out = []
    for _ in range(limit):
        if not truth(apply1(c, a)):
            return LL(out)
        out.append(a)
        a = apply1(f, a)
    raise Undef()


MONADIC_ADVERBS = {"'": x_each, '/': x_over, '\\': x_scan, ":'": x_each_pair, ':~': x_converge, '\\~': x_scan_converging, "@'": x_each_index}
VERB_ARITY = {"'": 1, '/': 2, '\\': 2, ":'": 2, ':~': 1, '\\~': 1, "@'": 1}


# ----------------------------------------------------------------------------- operands

ATOMS = [I(5), I(0), I(-3), R(2.5)]
VECS = [L(), L(I(4)), L(I(1), I(2)), L(I(3), I(1), I(2)), L(I(1), I(0), I(2), I(5)), L(I(-1), I(2), I(-3), I(4), I(5)),
        L(R(0.5), R(1.5), R(2.0)), L(I(8), I(2), I(2))]
MATS = [L(L(I(1), I(2)), L(I(3), I(4))), L(L(I(1), I(2), I(3)), L(I(4), I(5), I(6))), L(L(I(1), I(2)), L(I(3), I(4)), L(I(5), I(6)))]
NESTED = [L(I(1), L(I(2), I(3))), L(L(I(1)), L(I(2), I(3))), L(I(1), L(I(2), L(I(3), L(I(4)), I(5)), I(6)), I(7))]
STRS = [S(''), S('a'), S('abc')]
DICTS = [D([(I(1), I(2)), (I(3), I(4))]), D([(S('k'), I(7))])]
OPERANDS = ATOMS + VECS + MATS + NESTED + STRS


def text_of(spec):
    """source text of the adverb expression"""
    return spec['text']


def judge(stats, report, spec):
    """spec: dict(kind, adverbs, verb forms, operands, text) - computes the expansion and compares."""
    interp(recycle=True)
    try:
        want = spec['expand']()
    except Undef:
        stats.reject('a plain application of the expansion is undefined')
        return
    except rm.Outside:
        stats.reject('outside the reference domain')
        return
    k = interp()
    try:
        with core.case_timeout(10):
            got = ('val', to_canon(k(spec['text'])))
    except core.CaseTimeout:
        got = ('err', 'Timeout')
    except RecursionError:
        got = ('err', 'RecursionError')
    except Exception as e:
        got = ('err', type(e).__name__)
    operand = spec['operands'][-1]
    big = (operand[0] == 'l' and (len(operand[1]) >= 2 or shape_class(operand) in ('matrix', 'nested', 'ragged'))) or operand[0] in 'sd'
    stats.case((spec['text'],), nontrivial=big and spec.get('applications', 2) >= 2,
               classes=['adverb:' + spec['adverb'], 'verb:' + spec['verbkind']] + (['chain'] if spec.get('chain') else []),
               sample={"text": spec['text'], "expected": (show(want)[:80] if not isinstance(want, tuple) or want[0] != 'multiset' else 'multiset')})
    case = {"text": spec['text'], "build": spec['build']}
    key = f"{spec['adverb']} | {spec['verbkind']} | " + ','.join(_opshape(o) for o in spec['operands'])
    if len(spec['operands']) == 2 and all(o[0] == 'l' and o[1] for o in spec['operands']) and \
            (_depth_of(spec['operands'][0]) != _depth_of(spec['operands'][1]) or any(_mixed_depth(o) for o in spec['operands'])):
        key = key.replace(' | ', ' | depths:', 2).replace(' | depths:', ' | ', 1)     # mark the operand field only
    if got[0] == 'val' and spec.get('vartext'):
        # the same expression with the operand held in a variable (the expression compiler only sees variables)
        try:
            with core.case_timeout(3):
                k(spec['vartext'][0])
                got2 = ('val', to_canon(k(spec['vartext'][1])))
        except core.CaseTimeout:
            got2 = ('err', 'Timeout')
        except RecursionError:
            got2 = ('err', 'RecursionError')
        except Exception as e:
            got2 = ('err', type(e).__name__)
        if got2 != got and not (got2[0] == 'val' and agree(got[1], got2[1]) and agree(got2[1], got[1])):
            report(key + ' | via-variable', dict(case, via_variable=spec['vartext']), expected='literal operand: ' + show(got[1])[:100],
                   observed=('variable operand: ' + show(got2[1])[:100]) if got2[0] == 'val' else 'raises ' + got2[1])
            return
    if got[0] == 'err':
        report(key + ' | raised', case, expected=_show(want), observed='raises ' + got[1])
        return
    if isinstance(want, tuple) and want and want[0] == 'multiset':
        g = list(got[1][1]) if got[1][0] == 'l' else None
        ok = g is not None and len(g) == len(want[1])
        if ok:
            for w in want[1]:
                i = next((i for i, x in enumerate(g) if agree(w, x)), None)
                if i is None:
                    ok = False
                    break
                g.pop(i)
        if not ok:
            report(key + ' | value', case, expected=_show(want), observed=show(got[1])[:120])
        return
    if not agree(want, got[1]):
        cat = 'structure' if not _same_shape(want, got[1]) else 'value'
        report(key + ' | ' + cat, case, expected=_show(want), observed=show(got[1])[:120])
        return
    rebound = REBIND.get(spec['verbkind'].split(':', 1)[1])
    if rebound:
        # the verb is given by name: after the name is rebound, the same expression text must follow the new definition
        # (its expansion is evaluated through plain applications of the name, so it follows by construction)
        name, other, original = rebound
        try:
            if callable(other):
                k[name] = other
            else:
                k(name + '::' + other)
            try:
                want2 = spec['expand']()
            except Undef:
                return
            try:
                with core.case_timeout(10):
                    got2 = ('val', to_canon(k(spec['text'])))
            except core.CaseTimeout:
                got2 = ('err', 'Timeout')
            except Exception as e:
                got2 = ('err', type(e).__name__)
            if isinstance(want2, tuple) and want2 and want2[0] == 'multiset':
                return
            if got2[0] == 'err' or not agree(want2, got2[1]):
                report(key + ' | after-rebinding', dict(case, rebound=name), expected=_show(want2),
                       observed=show(got2[1])[:120] if got2[0] == 'val' else 'raises ' + got2[1])
        finally:
            if callable(original):
                k[name] = original
            else:
                k(name + '::' + original)


def _has_char_atoms(c):
    if c[0] == 'l':
        return any(_has_char_atoms(x) for x in c[1])
    if c[0] == 'd':
        return any(_has_char_atoms(k_) or _has_char_atoms(v_) for k_, v_ in c[1])
    return c[0] in 'cy'


def _depth_of(c):
    return 0 if c[0] != 'l' else 1 + max((_depth_of(x) for x in c[1]), default=0)


def _mixed_depth(c):
    """some list inside c has members of different depth (an atom next to a list, or lists of different depth)"""
    if c[0] != 'l':
        return False
    return len({_depth_of(x) for x in c[1]}) > 1 or any(_mixed_depth(x) for x in c[1])


def _has_reals(c):
    if c[0] == 'l':
        return any(_has_reals(x) for x in c[1])
    return c[0] == 'r'


def _has_inner(c, pred, inside=False):
    if c[0] == 'l':
        return (inside and pred(c)) or any(_has_inner(x, pred, True) for x in c[1])
    return inside and pred(c)


def _opshape(c):
    """operand class used in finding keys: the shape class, marked when the operand holds character or symbol atoms, strings
    as members of a list (klongpy represents characters as strings - the root cause of a whole family of differences) or
    empty lists as members (an array of shape (n,0) has no members)"""
    marks = ('chars:' if _has_char_atoms(c) else '') + ('strs:' if _has_inner(c, lambda x: x[0] == 's') else '') + \
        ('empties:' if _has_inner(c, lambda x: x[0] == 'l' and not x[1]) else '')
    return marks + shape_class(c)


def _show(w):
    if isinstance(w, tuple) and w and w[0] == 'multiset':
        return 'any order of ' + ' '.join(show(x) for x in w[1])[:100]
    return show(w)[:120]


def agree(w, g):
    """structure exact, numbers by value (Match), characters / strings exact"""
    if w[0] == 'l' or g[0] == 'l':
        return w[0] == g[0] and len(w[1]) == len(g[1]) and all(agree(x, y) for x, y in zip(w[1], g[1]))
    if w[0] in 'ir' and g[0] in 'ir':
        return ceq(w, g, match=True, rtol=1e-9)
    return w == g


def _same_shape(w, g):
    if w[0] == 'l' or g[0] == 'l':
        return w[0] == g[0] and len(w[1]) == len(g[1]) and all(_same_shape(x, y) for x, y in zip(w[1], g[1]))
    return True


# ----------------------------------------------------------------------------- case construction (replayable "build" tuples)

def P(c):
    return render(c)


def build(b):
    """b = ('mon', adverb, verbidx, operand) | ('dy', adverb, verbidx, a, operand) | ('it', adverb, verbidx, n, operand)
           | ('conv', adverb, convidx, operand) | ('while', adverb, widx, operand) | ('chain', adv1, verbidx, adv2, operand)
           | ('cchain', adv1 in :~ \\~, convidx, adv2, operand)"""
    kind = b[0]
    if kind == 'mon':
        _, adv, vi, a = b
        v = (MONADIC if VERB_ARITY[adv] == 1 else DYADIC)[vi]
        return dict(adverb=adv, verbkind=v[0] + ':' + v[1], operands=[a], text=v[1] + adv + P(a), build=b,
                    vartext=('opnd::' + P(a), v[1] + adv + 'opnd') if a[0] != 'd' else None,
                    expand=lambda: MONADIC_ADVERBS[adv](v, a))
    if kind == 'dy':
        _, adv, vi, a, bb = b
        v = DYADIC[vi]
        fn = {"'": x_each2, ':\\': x_each_left, ':/': x_each_right, '/': x_over_neutral, '\\': x_scan_neutral}[adv]
        return dict(adverb='dyadic ' + adv, verbkind=v[0] + ':' + v[1], operands=[a, bb], text=P(a) + v[1] + adv + P(bb), build=b,
                    expand=lambda: fn(v, a, bb))
    if kind == 'it':
        _, adv, vi, n, a = b
        v = MONADIC[vi]
        fn = x_iterate if adv == ':*' else x_scan_iterating
        return dict(adverb=adv, verbkind=v[0] + ':' + v[1], operands=[a], text=str(n) + v[1] + adv + P(a), build=b,
                    vartext=('cnt::0+%d' % n, 'cnt' + (' ' if v[1][0].isalnum() else '') + v[1] + adv + P(a)),        # the count as a computed value
                    applications=n, expand=lambda: fn(v, n, a))
    if kind == 'conv':
        _, adv, ci, a = b
        v = CONV[ci]
        fn = x_converge if adv == ':~' else x_scan_converging
        return dict(adverb=adv, verbkind=v[0] + ':' + v[1], operands=[a], text=v[1] + adv + P(a), build=b, expand=lambda: fn(v, a))
    if kind == 'while':
        _, adv, wi, a = b
        c, f = WHILE[wi]
        fn = x_while if adv == ':~' else x_scan_while
        return dict(adverb='dyadic ' + adv, verbkind='fn1:' + c[1] + f[1], operands=[a], text=c[1] + f[1] + adv + P(a), build=b,
                    expand=lambda: fn(c, f, a))
    if kind == 'chain':
        _, adv1, vi, adv2, a = b
        v = (MONADIC if VERB_ARITY[adv1] == 1 else DYADIC)[vi]
        g = lambda x: _unset(MONADIC_ADVERBS[adv1](v, x))          # the first adverb and the verb form a new monad
        return dict(adverb=adv1 + adv2, verbkind=v[0] + ':' + v[1], operands=[a], text=v[1] + adv1 + adv2 + P(a), build=b, chain=True,
                    vartext=('opnd::' + P(a), v[1] + adv1 + adv2 + 'opnd'),
                    expand=lambda: MONADIC_ADVERBS[adv2](g, a))
    if kind == 'cchain':
        _, adv1, ci, adv2, a = b
        v = CONV[ci]
        g = lambda x: _unset(MONADIC_ADVERBS[adv1](v, x))          # verb + Converge / Scan-Converging is the new monad
        return dict(adverb=adv1 + adv2, verbkind=v[0] + ':' + v[1], operands=[a], text=v[1] + adv1 + adv2 + P(a), build=b, chain=True,
                    vartext=('opnd::' + P(a), v[1] + adv1 + adv2 + 'opnd'),
                    expand=lambda: MONADIC_ADVERBS[adv2](g, a))
    raise ValueError(b)


def _unset(r):
    if isinstance(r, tuple) and r and r[0] == 'multiset':
        raise Undef()
    return r


CCHAIN_OPERANDS = [L(R(1.5), R(2.5)), L(I(0), I(0)), L(I(1), I(7), I(12)), L(R(0.5), R(-1.5), R(2.0)), L(),
                   L(L(I(1), I(2)), L(I(3), I(4))), L(L(R(0.5), R(1.5)), L(R(2.5), R(3.5))), L(L(I(0), I(0)), L(I(0), I(0))),
                   L(I(4), L(I(11), R(2.5)))]


def all_builds():
    for adv in MONADIC_ADVERBS:
        if adv in (':~', '\\~'):
            continue
        verbs = MONADIC if VERB_ARITY[adv] == 1 else DYADIC
        ops = OPERANDS + (DICTS if adv == "'" else [])
        for vi in range(len(verbs)):
            for a in ops:
                yield ('mon', adv, vi, a)
    for adv in ("'", ':\\', ':/', '/', '\\'):
        for vi in range(len(DYADIC)):
            for a in ATOMS[:2] + VECS[:4] + [L(I(2), I(3))]:
                for bb in ATOMS[:2] + VECS + MATS[:1] + NESTED[:1] + STRS[:0]:
                    yield ('dy', adv, vi, a, bb)
    for adv in (':*', '\\*'):
        for vi in range(len(MONADIC)):
            for n in (0, 1, 2, 3):
                for a in [I(1), I(5), L(), L(I(1), I(2)), S('ab')]:
                    yield ('it', adv, vi, n, a)
    for adv in (':~', '\\~'):
        for ci in range(len(CONV)):
            for a in [I(0), I(1), I(7), I(1000), L(I(1), L(I(2)), I(3)), L(L(L(I(0)))), L(I(1), L(I(2), L(I(3), L(I(4)), I(5)), I(6)), I(7)), L()]:
                yield ('conv', adv, ci, a)
        for wi in range(len(WHILE)):
            for a in [I(0), I(1), I(3), I(25), L(I(1))]:
                yield ('while', adv, wi, a)
    for adv1 in ("'", '/', '\\', ":'", "@'"):
        verbs = MONADIC if VERB_ARITY[adv1] == 1 else DYADIC
        for vi in range(len(verbs)):
            for adv2 in ("'", ':~', '\\~'):      # the verb-adverb combination is a monad: only adverbs of monads may follow
                for a in MATS + NESTED + [L(L(I(1)), L(I(2)), L(I(3))), L(S('ab'), S('cd'))]:
                    yield ('chain', adv1, vi, adv2, a)
    for adv1 in (':~', '\\~'):                 # Converge / Scan-Converging first, then Each over the members
        for ci in range(len(CONV)):
            for a in CCHAIN_OPERANDS:
                yield ('cchain', adv1, ci, "'", a)


def enum_shard(idx, nshards):
    stats = core.Stats()

    def report(fkey, case, expected=None, observed=None, note=None):
        stats.fail(fkey, case, expected, observed, note)
    for n, b in enumerate(all_builds()):
        if n % nshards == idx:
            judge(stats, report, build(b))
    return stats


def hyp_shard(seed_value, n):
    """generated operands (C01's recursive operand strategy) for every case shape of the enumeration"""
    from hypothesis import given, strategies as st
    from .c01_verbs import operand_strategy
    stats = core.Stats()
    f = core.Findings("C02")
    opnd = operand_strategy()
    mon_advs = [a for a in MONADIC_ADVERBS if a not in (':~', '\\~')]

    @st.composite
    def builds(draw):
        kind = draw(st.sampled_from(['mon', 'mon', 'dy', 'it', 'chain', 'chain', 'cchain']))
        if kind == 'cchain':
            return ('cchain', draw(st.sampled_from([':~', '\\~'])), draw(st.integers(0, len(CONV) - 1)), "'", draw(opnd))
        if kind == 'mon':
            adv = draw(st.sampled_from(mon_advs))
            verbs = MONADIC if VERB_ARITY[adv] == 1 else DYADIC
            return ('mon', adv, draw(st.integers(0, len(verbs) - 1)), draw(opnd))
        if kind == 'dy':
            adv = draw(st.sampled_from(["'", ':\\', ':/', '/', '\\']))
            return ('dy', adv, draw(st.integers(0, len(DYADIC) - 1)), draw(opnd), draw(opnd))
        if kind == 'it':
            return ('it', draw(st.sampled_from([':*', '\\*'])), draw(st.integers(0, len(MONADIC) - 1)), draw(st.integers(0, 4)), draw(opnd))
        adv1 = draw(st.sampled_from(["'", '/', '\\', ":'", "@'"]))
        verbs = MONADIC if VERB_ARITY[adv1] == 1 else DYADIC
        return ('chain', adv1, draw(st.integers(0, len(verbs) - 1)), draw(st.sampled_from(["'", ':~', '\\~'])), draw(opnd))

    def make_test(report):
        @given(builds())
        def t(b):
            judge(stats, report, build(b))
        return t
    core.hyp_collect(stats, make_test, seed_value, n, rounds=10, is_known=lambda k: f.match(k) is not None)
    return stats


def check(run):
    quick = run.tier == 'quick'
    run.absorb(core.pool_map('vk.c02_adverbs', 'enum_shard', [(i, 16) for i in range(16)]))
    run.absorb(core.pool_map('vk.c02_adverbs', 'hyp_shard', [(run.seed * 1000 + i, 400 if quick else 15000) for i in range(16)]))
    run.exhaustive = True
    run.coverage_extra['exhaustive_parts'] = ['adverbs x verb forms x operand universe', 'two-adverb chains x operand universe']


def replay(case):
    out = []
    st_ = core.Stats()

    def report(fkey, case_, expected=None, observed=None, note=None):
        out.append((fkey, expected, observed))
    judge(st_, report, build(from_json(case["build"])))
    return out
