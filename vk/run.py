"""CLI:  python -m vk.run <ID> [--tier quick|thorough] [--replay PATH]"""
import argparse
import importlib
import json
import os
import sys
import traceback

MODULES = {
    "C01": "vk.c01_verbs", "C02": "vk.c02_adverbs", "C03": "vk.c03_apply", "C04": "vk.c04_state",
    "C05": "vk.c05_compiled", "C06": "vk.c06_grad", "C07": "vk.c07_gradpure", "C08": "vk.c08_backends",
    "C09": "vk.c09_interop", "C10": "vk.c10_dict", "C11": "vk.c11_readwrite", "C12": "vk.c12_parse",
    "C13": "vk.c13_ipc", "C14": "vk.c14_calls", "C15": "vk.c15_timer", "C16": "vk.c16_store",
    "C17": "vk.c17_crash", "C18": "vk.c18_linear", "C19": "vk.c19_table", "C20": "vk.c20_web",
}


def main():
    ap = argparse.ArgumentParser()
    ap.add_argument("pid")
    ap.add_argument("--tier", default=None)
    ap.add_argument("--replay", default=None)
    a = ap.parse_args()

    # determinism: fixed hash seed (re-exec once)
    if os.environ.get("PYTHONHASHSEED") != "0":
        env = dict(os.environ, PYTHONHASHSEED="0", OMP_NUM_THREADS="1", MKL_NUM_THREADS="1",
                   PYTHONWARNINGS="ignore")
        os.execve(sys.executable, [sys.executable, "-m", "vk.run"] + sys.argv[1:], env)

    from . import core
    code = 2
    try:
        core.setup_repo_path()
        if a.pid not in MODULES:
            raise core.HarnessError(f"unknown property {a.pid}")
        mod = importlib.import_module(MODULES[a.pid])
        if a.replay:
            with open(a.replay) as fh:
                rp = json.load(fh)
            fails = mod.replay(rp["case"])
            if fails:
                print(f"VIOLATION property={a.pid} replay={a.replay}")
                for f in fails[:5]:
                    print("  ", json.dumps(core.jsonable(f))[:800])
                code = 1
            else:
                print(f"replay passes: property={a.pid} {a.replay}")
                code = 0
        else:
            t = core.tier(a.tier)
            run = core.Run(a.pid, mod.LEVEL, t, mod.RULE, getattr(mod, "ASSUMPTIONS", ()))
            # regression replay of fixed findings (they suppress nothing)
            for e in run.findings.fixed:
                ex = e.get("example")
                if ex is not None and hasattr(mod, "replay"):
                    fails = mod.replay(ex)
                    if fails:
                        for fk, exp, obs in fails:
                            run.stats.fail("regression:" + e["id"] + ":" + fk, ex, exp, obs,
                                           note="fixed finding returned")
            mod.check(run)
            code = run.finish()
    except core.HarnessError as e:
        print(f"HARNESS-ERROR property={a.pid}: {e}")
        code = 2
    except BaseException as e:  # noqa
        print(f"HARNESS-ERROR property={a.pid}: {type(e).__name__}: {e}")
        traceback.print_exc()
        code = 2
    sys.stdout.flush()
    sys.stderr.flush()
    os._exit(code)


if __name__ == "__main__":
    main()
