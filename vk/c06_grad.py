"""C06 - gradient operators return the mathematical derivative.

Generator: differentiable expression trees x evaluation points on a grid inside the smooth domain
x forms (f:>p, p-nabla-f with literal and symbol, Jacobian forms, multi-parameter forms) x backend.
Oracle: an independent forward-mode dual-number evaluator in pure Python.  DESIGN.md 3/C06.
"""
import math

from hypothesis import given, strategies as st

from . import core
from .canon import to_canon, show

LEVEL = "exploration"
RULE = ("expression tree (<=9 nodes) over + - * %, constant and variable exponents on positive bases, negation, +/ and */ "
        "reductions, indexing, each with a lambda, imported backend functions exp sin cos tanh sqrt log; evaluation point with "
        "components in {0.5,0.75,1.25,1.5,2.0,2.5} (a scalar, a vector of 2-3, or a 2x2 / 3x2 / 2x3 matrix written as a literal, as the transpose of a literal, or held in a variable bound to that transpose; also a vector written as an expression); divisors / log / sqrt arguments / variable-exponent bases are sums of squares "
        "plus a constant (smooth by construction); forms f:>P, P-nabla-f, q-nabla-f, P-jacobian-g, .jacobian(g;P), loss:>[w b], "
        "[w b]-jacobian-g, with g either (e, e*e) for a scalar tree e or a vector tree built from the whole parameter vector with reverse, drop, take, + - *, scaling, join, each with a lambda, +-scan; on numpy (numeric) and torch (autograd); non-trivial = the tree has >=2 different operations and a "
        "non-linear one; distinct by (tree, point, form, backend)")
ASSUMPTIONS = [
    "oracle: exact forward-mode dual numbers in pure Python over the same tree",
    "tolerance numeric (central differences): |g-g*| <= 1e-4*|g*| + 1e-6*(1+|f(p)|) + truncation; torch autograd (float32): 1e-3*|g*| + 1e-4*(1+|f(p)|) + rounding",
    "Jacobians are compared entry-wise after reshaping to m x n; for a scalar parameter an m x 1 result and a length-m result are both accepted",
    "ill-conditioned cases are rejected: an intermediate value or partial derivative beyond 1e3 in magnitude, or a third "
    "derivative along an axis beyond 1e7 (estimated from the exact gradient at p +- 1e-3); the truncation error of the central "
    "difference, 1e-12/6 times that third derivative (x10 safety), is added to the numeric tolerance, and 2e-6 times the largest "
    "intermediate quantity to the float32 tolerance",
    "p-nabla-f is numeric on both backends and torch's Jacobian forms fall back to numeric differentiation when autograd declines; "
    "on torch a function may compute in float32 (its default float), where klongpy steps by 1e-4, so those forms get "
    "1e-3*|g*| + 2e-3*scale + truncation at that step: single precision, as the property states for torch",
    "functions that use none of the parameters are rejected: torch answers them with its designed AutogradChainBrokenError "
    "('output lost gradient tracking'), which is a diagnostic, not a wrong derivative; a multi-parameter loss that uses only some "
    "of its parameters is in the domain and the unused ones must get zeros",
]

GRID = [0.5, 0.75, 1.25, 1.5, 2.0, 2.5]
FNS = ['exp', 'sin', 'cos', 'tanh', 'sqrt', 'log']


# ----------------------------------------------------------------------------- dual numbers

class Dual:
    __slots__ = ('v', 'd')

    def __init__(self, v, d):
        self.v, self.d = v, d

    @staticmethod
    def const(c, n):
        return Dual(float(c), [0.0] * n)


def d_bin(op, a, b):
    n = len(a.d)
    if op == '+':
        return Dual(a.v + b.v, [a.d[i] + b.d[i] for i in range(n)])
    if op == '-':
        return Dual(a.v - b.v, [a.d[i] - b.d[i] for i in range(n)])
    if op == '*':
        return Dual(a.v * b.v, [a.d[i] * b.v + a.v * b.d[i] for i in range(n)])
    if op == '%':
        return Dual(a.v / b.v, [(a.d[i] * b.v - a.v * b.d[i]) / (b.v * b.v) for i in range(n)])
    if op == '^':
        v = a.v ** b.v
        return Dual(v, [v * (b.d[i] * math.log(a.v) + b.v * a.d[i] / a.v) if a.v > 0 else b.v * a.v ** (b.v - 1) * a.d[i] for i in range(n)])
    raise ValueError(op)


def d_fn(name, a):
    v = a.v
    if name == 'exp':
        r, k = math.exp(v), math.exp(v)
    elif name == 'sin':
        r, k = math.sin(v), math.cos(v)
    elif name == 'cos':
        r, k = math.cos(v), -math.sin(v)
    elif name == 'tanh':
        r, k = math.tanh(v), 1 - math.tanh(v) ** 2
    elif name == 'sqrt':
        r, k = math.sqrt(v), 0.5 / math.sqrt(v)
    elif name == 'log':
        r, k = math.log(v), 1 / v
    else:
        raise ValueError(name)
    return Dual(r, [k * x for x in a.d])


# ----------------------------------------------------------------------------- trees

def tree_strategy(leaves):
    leaf = st.one_of(st.sampled_from(leaves), st.sampled_from(leaves), st.sampled_from([('k', 0.5), ('k', 1.5), ('k', 2.0), ('k', 3.0)]))

    def pos(ch):      # positive by construction
        return st.tuples(st.just('pos'), ch, st.sampled_from([0.5, 1.0, 2.0]))

    def ext(ch):
        return st.one_of(
            st.tuples(st.just('b'), st.sampled_from(['+', '-', '*']), ch, ch),
            st.tuples(st.just('b'), st.just('%'), ch, pos(ch)),
            st.tuples(st.just('b'), st.just('^'), ch.filter(lambda e: e[0] in ('v', 'pos')) | pos(ch), st.sampled_from([('k', 2.0), ('k', 3.0)])),
            st.tuples(st.just('b'), st.just('^'), pos(ch), st.sampled_from([('k', 0.5), ('k', 1.5)])),
            st.tuples(st.just('b'), st.just('^'), pos(ch), ch),
            st.tuples(st.just('neg'), ch),
            st.tuples(st.just('f'), st.sampled_from(['exp', 'sin', 'cos', 'tanh']), ch),
            st.tuples(st.just('f'), st.sampled_from(['sqrt', 'log']), pos(ch)))
    return st.recursive(leaf, ext, max_leaves=5)


def size(e):
    return 1 + sum(size(x) for x in e[1:] if isinstance(x, tuple))


def ops(e, acc=None):
    acc = set() if acc is None else acc
    if e[0] == 'b':
        acc.add(e[1])
    elif e[0] in ('neg', 'pos', 'red', 'vrev', 'vdrop', 'vtake', 'vscale', 'vjoin', 'veach', 'vscan'):
        acc.add(e[0])
    elif e[0] == 'vbin':
        acc.add('v' + e[1])
    elif e[0] == 'f':
        acc.add(e[1])
    for x in e[1:]:
        if isinstance(x, tuple):
            ops(x, acc)
    return acc


def text(e):
    t = e[0]
    if t == 'v':
        return e[1]
    if t == 'k':
        return repr(float(e[1]))
    if t == 'b':
        return '(' + text(e[2]) + ')' + e[1] + '(' + text(e[3]) + ')'
    if t == 'neg':
        return '-(' + text(e[1]) + ')'
    if t == 'pos':
        return '((' + text(e[1]) + ')*(' + text(e[1]) + '))+' + repr(float(e[2]))
    if t == 'f':
        return e[1] + '(' + text(e[2]) + ')'
    if t == 'red':          # reduction over the whole vector variable: +/x*x, */x, +/{x*x}'x, +/x*W
        return e[1]
    if t == 'vx':
        return e[1]
    if t == 'vrev':
        return '|(' + text(e[1]) + ')'
    if t == 'vdrop':
        return str(e[1]) + '_(' + text(e[2]) + ')'
    if t == 'vtake':
        return str(e[1]) + '#(' + text(e[2]) + ')'
    if t == 'vbin':
        return '(' + text(e[2]) + ')' + e[1] + '(' + text(e[3]) + ')'
    if t == 'vscale':
        return '(' + text(e[1]) + ')*(' + text(e[2]) + ')'
    if t == 'vjoin':
        return '(' + text(e[1]) + '),(' + text(e[2]) + ')'
    if t == 'veach':
        return '{' + text(e[1]) + "}'(" + text(e[2]) + ')'
    if t == 'vscan':
        return '+\\(' + text(e[1]) + ')'
    raise ValueError(e)


class Mismatch(Exception):
    pass


def evald(e, env, n, trace=None):
    """exact value and gradient of a tree: a Dual for a scalar node, a list of Duals for a vector node; every
    intermediate result is appended to trace"""
    r = _evald(e, env, n, trace)
    if trace is not None:
        trace.extend(r if isinstance(r, list) else [r])
    return r


def _evald(e, env, n, trace):
    t = e[0]
    if t == 'v':
        return env[e[1]]
    if t == 'k':
        return Dual.const(e[1], n)
    if t == 'b':
        return d_bin(e[1], evald(e[2], env, n, trace), evald(e[3], env, n, trace))
    if t == 'neg':
        a = evald(e[1], env, n, trace)
        return Dual(-a.v, [-x for x in a.d])
    if t == 'pos':
        a = evald(e[1], env, n, trace)
        return d_bin('+', d_bin('*', a, a), Dual.const(e[2], n))
    if t == 'f':
        return d_fn(e[1], evald(e[2], env, n, trace))
    if t == 'red':
        return e[2](env, n)
    if t == 'vx':
        return [env[f'({e[1]}@{i})'] for i in range(e[2])]
    if t == 'vrev':
        return list(reversed(evald(e[1], env, n, trace)))
    if t == 'vdrop':
        v = evald(e[2], env, n, trace)[e[1]:]
        if not v:
            raise Mismatch()
        return v
    if t == 'vtake':
        v = evald(e[2], env, n, trace)
        return [v[i % len(v)] for i in range(e[1])]
    if t == 'vbin':
        a, b = evald(e[2], env, n, trace), evald(e[3], env, n, trace)
        if len(a) != len(b):
            raise Mismatch()
        return [d_bin(e[1], x, y) for x, y in zip(a, b)]
    if t == 'vscale':
        c = evald(e[1], env, n, trace)
        return [d_bin('*', c, x) for x in evald(e[2], env, n, trace)]
    if t == 'vjoin':
        return evald(e[1], env, n, trace) + [evald(e[2], env, n, trace)]
    if t == 'veach':
        return [evald(e[1], {'x': x}, n, trace) for x in evald(e[2], env, n, trace)]
    if t == 'vscan':
        out = []
        for x in evald(e[1], env, n, trace):
            out.append(x if not out else d_bin('+', out[-1], x))
        return out
    raise ValueError(e)


def bounded(e, env, n):
    """evaluate all sub-values; reject when anything is large / non-finite"""
    try:
        trace = []
        res = evald(e, env, n, trace)
        for r in trace:
            if not math.isfinite(r.v) or abs(r.v) > 1e3 or any(not math.isfinite(x) or abs(x) > 1e3 for x in r.d):
                return None
        return res, max(max(abs(r.v), max(abs(x) for x in r.d)) for r in trace)
    except (OverflowError, ZeroDivisionError, ValueError, Mismatch):
        return None


NODES = ('v', 'k', 'b', 'neg', 'pos', 'f', 'red', 'vx', 'vrev', 'vdrop', 'vtake', 'vbin', 'vscale', 'vjoin', 'veach', 'vscan')


def subtrees(e):
    yield e
    for x in e[1:]:
        if isinstance(x, tuple) and x and isinstance(x[0], str) and x[0] in NODES:
            yield from subtrees(x)


def vec_strategy(var, m, scalar_leaves):
    """vector-valued trees over the whole parameter vector"""
    E = tree_strategy(scalar_leaves)
    inner = tree_strategy([('v', 'x')])

    def ext(ch):
        return st.one_of(
            st.tuples(st.just('vrev'), ch),
            st.tuples(st.just('vdrop'), st.just(1), ch),
            st.tuples(st.just('vtake'), st.sampled_from([1, 2, 4]), ch),
            st.tuples(st.just('vbin'), st.sampled_from(['+', '-', '*']), ch, ch),
            st.tuples(st.just('vscale'), E, ch),
            st.tuples(st.just('vjoin'), ch, E),
            st.tuples(st.just('veach'), inner, ch),
            st.tuples(st.just('vscan'), ch))
    return st.recursive(st.just(('vx', var, m)), ext, max_leaves=3)


# vector reductions as leaves (value + gradient computed directly)
def red_leaves(n):
    def sumsq(env, n_):
        xs = [env[f'(x@{i})'] for i in range(n)]
        acc = Dual.const(0, n_)
        for x in xs:
            acc = d_bin('+', acc, d_bin('*', x, x))
        return acc

    def prod(env, n_):
        xs = [env[f'(x@{i})'] for i in range(n)]
        acc = Dual.const(1, n_)
        for x in xs:
            acc = d_bin('*', acc, x)
        return acc

    def dot(env, n_):
        xs = [env[f'(x@{i})'] for i in range(n)]
        w = [0.5, 2.0, -1.5][:n]
        acc = Dual.const(0, n_)
        for x, c in zip(xs, w):
            acc = d_bin('+', acc, d_bin('*', x, Dual.const(c, n_)))
        return acc
    W = '[' + ' '.join(repr(c) for c in [0.5, 2.0, -1.5][:n]) + ']'
    return [('red', '(+/x*x)', sumsq), ('red', '(*/x)', prod), ('red', "(+/{x*x}'x)", sumsq), ('red', f'(+/x*{W})', dot)]


# ----------------------------------------------------------------------------- evaluation in klongpy

_K = {}


def interp(backend):
    from klongpy import KlongInterpreter
    ent = _K.get(backend)
    if ent is None or ent[1] > 400:
        k = KlongInterpreter(backend='torch', device='cpu') if backend == 'torch' else KlongInterpreter()
        k('.bkf(["exp" "sin" "cos" "tanh" "sqrt" "log"])')
        ent = [k, 0]
        _K[backend] = ent
    ent[1] += 1
    return ent[0]


def flat(c):
    if c[0] == 'l':
        out = []
        for x in c[1]:
            out += flat(x)
        return out
    if c[0] in 'ir':
        return [float(c[1])]
    return [float('nan')]


def tol(backend, form, gstar, fval, cond):
    scale, t3 = cond
    if backend == 'numpy':
        # central differences with step 1e-6 in float64: relative 1e-4 (the property says about 1e-5), rounding
        # 1e-6(1+|f|), truncation h^2/6 |f3| (third derivative) with a factor 10 for its estimate
        return 1e-4 * abs(gstar) + 1e-6 * (1 + abs(fval)) + 10 * 1e-12 / 6 * t3
    if ':>' in form:
        # autograd in float32: relative 1e-3 plus rounding proportional to the largest intermediate quantity
        return 1e-3 * abs(gstar) + 1e-4 * (1 + abs(fval)) + 2e-6 * scale
    # numeric differentiation on torch (nabla always; the Jacobian forms when torch's own jacobian declines): the function may
    # compute in float32, for which klongpy uses the step 1e-4: rounding ulp32 * scale / step, truncation 1e-8/6 |f3|
    return 1e-3 * abs(gstar) + 2e-3 * scale + 10 * 1e-8 / 6 * t3


def run_form(backend, form, e, point):
    """Returns (got flat list | ('err', name), expected flat list, f value, description)."""
    k = interp(backend)
    n = len(point)
    scalar = form.endswith('-scalar')
    if form.startswith('multi'):
        # parameters w (vector of n-1 components) and b (scalar, the last component)
        names = [f'(w@{i})' for i in range(n - 1)] + ['b']
    elif scalar:
        names = ['x']
    elif form.startswith('mat'):
        rows, cols = mat_shape(form)
        names = [f'((x@{i})@{j})' for i in range(rows) for j in range(cols)]
    else:
        names = [f'(x@{i})' for i in range(n)]

    def exact(pt):
        env = {nm: Dual(pt[i], [1.0 if j == i else 0.0 for j in range(n)]) for i, nm in enumerate(names)}
        val = bounded(e, env, n)
        if val is None:
            return None
        val, sc = val
        if form in ('P∂G', '.jacobianG'):
            return [d for c in val for d in c.d], max(abs(c.v) for c in val), sc
        if form == 'multi∂G':
            return [c.d[i] for c in val for i in range(n - 1)] + [c.d[n - 1] for c in val], max(abs(c.v) for c in val), sc
        if form in ('P∂g', '.jacobian'):
            # g = (e, e*e): Jacobian rows = grad e and 2 e grad e
            w = list(val.d) + [2 * val.v * d for d in val.d]
        elif form == 'multi∂':
            # g = (e, 2e); [J_w J_b]: J_w is 2 x (n-1), J_b is 2 x 1
            w = [val.d[i] for i in range(n - 1)] + [2 * val.d[i] for i in range(n - 1)] + [val.d[n - 1], 2 * val.d[n - 1]]
        else:
            w = list(val.d)
        return w, val.v, sc

    ex = exact(point)
    if ex is None:
        return None
    want, fval, scale = ex
    # conditioning: the largest intermediate value / partial (float32 rounding scales with it) and the size of the
    # third derivative along each axis (the truncation error of a central difference with step h is h^2/6 times it)
    scale = max(scale, 1.0)
    dl = 1e-3
    t3 = 0.0
    for j in range(n):
        up = exact([p + (dl if i == j else 0) for i, p in enumerate(point)])
        dn = exact([p - (dl if i == j else 0) for i, p in enumerate(point)])
        if up is None or dn is None:
            return None
        t3 = max(t3, max(abs(a - 2 * b + c) for a, b, c in zip(up[0], want, dn[0])) / (dl * dl))
    if t3 > 1e7:
        return None
    body = text(e)
    P = repr(point[0]) if scalar else '[' + ' '.join(repr(p) for p in point) + ']'
    if form.startswith('mat'):
        # the point is a rows x cols matrix: written as a literal, or as the transpose of the literal of its transpose
        # (the same value; an implementation may hold it in another memory layout)
        rows, cols = mat_shape(form)
        lit = lambda rws: '[' + ''.join('[' + ' '.join(repr(v) for v in r) + ']' for r in rws) + ']'
        M = [[point[i * cols + j] for j in range(cols)] for i in range(rows)]
        P = lit(M)
        PT = '+' + lit([[M[i][j] for i in range(rows)] for j in range(cols)])
    try:
        if form.startswith('mat'):
            what = form.split(':', 2)[2]
            if what == 'f:>M':
                r = k('{' + body + '}:>' + P)
            elif what == 'M∇f':
                r = k(P + '∇{' + body + '}')
            elif what == 'f:>+T':
                r = k('{' + body + '}:>' + PT)
            elif what == 'q∇f,q=+T':
                k('q::' + PT)
                r = k('q∇{' + body + '}')
            elif what == 'f:>q,q=+T':
                k('q::' + PT)
                r = k('{' + body + '}:>q')
            else:
                raise ValueError(form)
        elif form == '(P+0)∇f':
            r = k('(' + P + '+0.0)∇{' + body + '}')          # the point is the value of an expression
        elif form in ('f:>P', 'f:>P-scalar'):
            r = k('{' + body + '}:>' + P)
        elif form in ('P∇f', 'P∇f-scalar'):
            r = k(P + '∇{' + body + '}')
        elif form in ('q∇f', 'q∇f-scalar'):
            k('q::' + P)
            r = k('q∇{' + body + '}')
        elif form == 'f:>q':
            k('q::' + P)
            r = k('{' + body + '}:>q')
        elif form in ('P∂g', '.jacobian'):
            gtext = '{x;(' + body + '),(' + body + ')*(' + body + ')}'
            r = k(P + '∂' + gtext) if form == 'P∂g' else k('gg::' + gtext + ';.jacobian(gg;' + P + ')')
        elif form in ('P∂G', '.jacobianG'):
            gtext = '{' + body + '}'
            r = k(P + '∂' + gtext) if form == 'P∂G' else k('gg::' + gtext + ';.jacobian(gg;' + P + ')')
        elif form in ('multi:>', 'multi∂', 'multi∂G'):
            k('w::[' + ' '.join(repr(p) for p in point[:-1]) + ']')
            k('b::' + repr(point[-1]))
            if form == 'multi:>':
                k('loss::{' + body + '}')
                r = k('loss:>[w b]')
            elif form == 'multi∂':
                k('gl::{(' + body + '),(' + body + ')*2.0}')
                r = k('[w b]∂gl')
            else:
                k('gl::{' + body + '}')
                r = k('[w b]∂gl')
        else:
            raise ValueError(form)
        got = flat(to_canon(r))
    except Exception as ex:
        got = ('err', type(ex).__name__ + ': ' + str(ex)[:80])
    return got, want, fval, '{' + body + '} at ' + P, (scale, t3)


FORMS_VEC = ['f:>P', 'P∇f', 'q∇f', 'f:>q', 'P∂g', '.jacobian', 'multi:>', 'multi∂', 'P∂G', '.jacobianG', 'multi∂G', '(P+0)∇f']
FORMS_MAT = ['f:>M', 'M∇f', 'f:>+T', 'q∇f,q=+T', 'f:>q,q=+T']
MAT_SHAPES = [(2, 2), (3, 2), (2, 3)]


def mat_shape(form):
    r, c = form.split(':', 2)[1].split('x')
    return int(r), int(c)
FORMS_SCALAR = ['f:>P-scalar', 'P∇f-scalar', 'q∇f-scalar']


@st.composite
def cases(draw):
    backend = draw(st.sampled_from(['numpy', 'torch']))
    scalar = draw(st.sampled_from([False, False, True, 'matrix']))
    if scalar == 'matrix':
        rows, cols = draw(st.sampled_from(MAT_SHAPES))
        form = f'mat:{rows}x{cols}:' + draw(st.sampled_from(FORMS_MAT))
        e = draw(tree_strategy([('v', f'((x@{i})@{j})') for i in range(rows) for j in range(cols)]))
        point = [draw(st.sampled_from(GRID)) for _ in range(rows * cols)]
    elif scalar:
        form = draw(st.sampled_from(FORMS_SCALAR))
        e = draw(tree_strategy([('v', 'x')]))
        point = [draw(st.sampled_from(GRID))]
    else:
        form = draw(st.sampled_from(FORMS_VEC))
        n = draw(st.sampled_from([2, 3]))
        if form.startswith('multi'):
            leaves = [('v', f'(w@{i})') for i in range(n - 1)] + [('v', 'b')]
        else:
            leaves = [('v', f'(x@{i})') for i in range(n)] + red_leaves(n)
        if form == 'multi∂G':
            if n == 2:
                n = 3
                leaves = [('v', '(w@0)'), ('v', '(w@1)'), ('v', 'b')]
            e = draw(vec_strategy('w', n - 1, leaves))
        elif form in ('P∂G', '.jacobianG'):
            e = draw(vec_strategy('x', n, leaves))
        else:
            e = draw(tree_strategy(leaves))
        point = [draw(st.sampled_from(GRID)) for _ in range(n)]
    return backend, form, e, point


def strip(e):
    """JSON-able tree (reduction leaves keep only their text)"""
    if e[0] == 'red':
        return ('red', e[1])
    return tuple(strip(x) if isinstance(x, tuple) else x for x in e)


def judge(stats, report, backend, form, e, point):
    if size(e) > 12:
        stats.reject('tree too large')
        return
    if not any(s[0] in ('v', 'red', 'vx') for s in subtrees(e)):
        stats.reject('function does not depend on the parameter (torch reports this with a designed AutogradChainBrokenError)')
        return
    res = run_form(backend, form, e, point)
    if res is None:
        stats.reject('ill-conditioned: intermediate values or partials beyond 1e3, third derivative beyond 1e7, or non-finite')
        return
    got, want, fval, desc, cond = res
    o = ops(e)
    nonlin = bool(o & {'*', '%', '^', 'exp', 'sin', 'cos', 'tanh', 'sqrt', 'log', 'pos', 'red', 'v*', 'vscale', 'veach'})
    stats.case((backend, form, repr(strip(e)), tuple(point)), nontrivial=len(o) >= 2 and nonlin,
               classes=['backend:' + backend, 'form:' + form] + ['op:' + x for x in sorted(o)],
               sample={"backend": backend, "form": form, "function": desc, "derivative": [round(x, 6) for x in want][:6]})
    case = {"backend": backend, "form": form, "tree": strip(e), "point": point, "function": desc}
    key = f"{backend}/{form}/" + '+'.join(sorted(o & {'^', '%', 'red', 'exp', 'sin', 'cos', 'tanh', 'sqrt', 'log', 'vrev', 'vdrop', 'vtake', 'vjoin', 'veach', 'vscan', 'vscale'})) or 'linear'
    if isinstance(got, tuple):
        report(key + '/raised', case, expected=[round(x, 8) for x in want], observed=got[1])
        return
    if len(got) != len(want):
        report(key + '/shape', case, expected=f'{len(want)} entries {[round(x, 6) for x in want]}', observed=f'{len(got)} entries {[round(x, 6) for x in got][:8]}')
        return
    for g, w in zip(got, want):
        if not (abs(g - w) <= tol(backend, form, w, fval, cond)):
            report(key + '/value', case, expected=[round(x, 8) for x in want], observed=[round(x, 8) for x in got])
            return


def rebuild(t, n):
    """inverse of strip: restore reduction leaves from their text"""
    if isinstance(t, (list, tuple)) and t and t[0] == 'red':
        for r in red_leaves(n):
            if r[1] == t[1]:
                return r
        raise ValueError(t)
    if isinstance(t, (list, tuple)):
        return tuple(rebuild(x, n) if isinstance(x, (list, tuple)) else x for x in t)
    return t


def shard(seed_value, n):
    stats = core.Stats()
    f = core.Findings("C06")

    def make_test(report):
        @given(cases())
        def t(c):
            judge(stats, report, *c)
        return t
    core.hyp_collect(stats, make_test, seed_value, n, rounds=10, is_known=lambda k: f.match(k) is not None)
    return stats


def check(run):
    quick = run.tier == 'quick'
    run.absorb(core.pool_map('vk.c06_grad', 'shard', [(run.seed * 1000 + i, 600 if quick else 5000) for i in range(16)]))
    run.min_class_fraction = {'backend:torch': 0.2, 'form:multi:>': 0.015}


def replay(case):
    out = []
    st_ = core.Stats()

    def report(fkey, case_, expected=None, observed=None, note=None):
        out.append((fkey, expected, observed))
    judge(st_, report, case["backend"], case["form"], rebuild(case["tree"], len(case["point"])), case["point"])
    return out
