#!/venv/bin/python
"""Rewrites the generated blocks of DESIGN.md (between <!-- BEGIN:name --> and <!-- END:name -->) from
known_findings.json, seeded/*/meta.json and evidence/*.json, so that the tables cannot drift from the data."""
import glob
import json
import os
import re

HERE = os.path.dirname(os.path.dirname(os.path.abspath(__file__)))


def esc(s):
    return str(s).replace('|', '\\|').replace('\n', ' ')


def findings_block():
    d = json.load(open(os.path.join(HERE, 'known_findings.json')))['findings']
    out = ['| property | id | status | commit in /repo | what failed |', '|---|---|---|---|---|']
    for f in sorted(d, key=lambda f: (f['property'], f['status'], f['id'])):
        out.append(f"| {f['property']} | {f['id']} | {f['status']} | {f.get('commit') or ''} | {esc(f['what'])[:260]} |")
    nfixed = sum(1 for f in d if f['status'] == 'fixed')
    nopen = sum(1 for f in d if f['status'] == 'open')
    out.append('')
    out.append(f'{nfixed} fixed entries, {nopen} open entries.')
    return '\n'.join(out)


def seeded_block():
    rows = []
    for m in sorted(glob.glob(os.path.join(HERE, 'seeded', '*', 'meta.json'))):
        j = json.load(open(m))
        sid = os.path.basename(os.path.dirname(m))
        ran = j.get('ran', {})
        at = j.get('at_head')
        if at:      # re-run against the final /repo HEAD by tools/reverify_seeds.sh
            keys = at.get('violation_keys', [])
            status = f"{at.get('result')} (at {at.get('repo_commit')})"
        else:
            keys = ran.get('verif_violation_keys', [])
            status = j.get('status') or ('detected' if j.get('detected_by_check') else 'MISSED')
        rows.append(f"| {sid} | {esc(j.get('summary') or j.get('needs_to_manifest', ''))[:230]} | {status} | {esc('; '.join(keys[:2]))[:150]} |")
    out = ['| seeded change | what it is / what it needs to manifest | result of the quick check | first finding keys |', '|---|---|---|---|'] + rows
    return '\n'.join(out)


def evidence_block():
    out = ['| id | level | evaluations | distinct non-trivial | known-finding hits | wall (s) |', '|---|---|---|---|---|---|']
    for p in sorted(glob.glob(os.path.join(HERE, 'evidence', 'C*.json'))):
        e = json.load(open(p))
        cov = e.get('coverage', {})
        out.append(f"| {e['property_id']} | {e.get('level')} | {cov.get('evaluations')} | {cov.get('distinct_nontrivial')} | "
                   f"{sum((cov.get('excluded_known') or {}).values())} | {e.get('wall_s')} |")
    return '\n'.join(out)


def main():
    p = os.path.join(HERE, 'DESIGN.md')
    s = open(p).read()
    for name, fn in (('findings', findings_block), ('seeded', seeded_block), ('evidence', evidence_block)):
        pat = re.compile(r'(<!-- BEGIN:%s -->\n).*?(<!-- END:%s -->)' % (name, name), re.S)
        if not pat.search(s):
            print('marker missing:', name)
            continue
        s = pat.sub(lambda m: m.group(1) + fn() + '\n' + m.group(2), s)
    open(p, 'w').write(s)
    print('DESIGN.md tables regenerated')


if __name__ == '__main__':
    main()
