#!/bin/bash
# usage: tools/verify_seed.sh <PID> <LETTER> [patchfile]
# Confirms a seeded change in its scratch worktree (/tmp/seed/<PID>) against the CURRENT /repo HEAD:
#   demo passes without the change, fails with it; the repository's test suite passes with it;
#   then runs the /verif check for <PID> against the patched worktree and stores everything
#   under /verif/seeded/<PID>-<LETTER>/.
set -u
PID=$1; L=$2
WT=/tmp/seed/$PID
SRC=$WT/out/$L
PATCH=${3:-$SRC/patch.diff}
DST=/verif/seeded/$PID-$L
HEAD=$(git -C /repo rev-parse --short HEAD)
mkdir -p "$DST"
git -C "$WT" checkout -q -- . && git -C "$WT" checkout -q --detach "$(git -C /repo rev-parse HEAD)" || exit 3
cd "$WT"
PYTHONPATH=$WT timeout 600 /venv/bin/python "$SRC/demo.py" > /tmp/vs.$PID$L.clean 2>&1; RC_CLEAN=$?
git apply "$PATCH" || { echo "patch does not apply to $HEAD"; exit 3; }
PYTHONPATH=$WT timeout 600 /venv/bin/python "$SRC/demo.py" > /tmp/vs.$PID$L.mut 2>&1; RC_MUT=$?
# one run of the whole suite (no -x: the load-sensitive tests must not hide later failures)
PYTHONPATH=$WT timeout 1800 /venv/bin/python -m pytest -q -p no:cacheprovider --timeout=900 > /tmp/vs.$PID$L.suite 2>&1; RC_SUITE=$?
SUITE=$(tail -1 /tmp/vs.$PID$L.suite)
if [ $RC_SUITE -ne 0 ]; then
  # three tests are load-sensitive (10 s subprocess timeout, real-time timer, wall-clock bound): when they are the only
  # failures, each is rerun alone (up to 3 times, it must pass once) and the suite result is recorded as such; a test
  # that cannot pass at the present load is also run on the clean tree: failing there too, it says nothing about the change
  if [ $RC_SUITE -ne 0 ]; then
    FAILED=$(grep "^FAILED" /tmp/vs.$PID$L.suite | sed 's/^FAILED //; s/ - .*//')
    OTHER=$(echo "$FAILED" | grep -v "test_exit_from_file\|test_timer_return_1_cancel\|test_scan_in_loop_uses_compiled" | grep -c .)
    if [ "$OTHER" = "0" ] && [ -n "$FAILED" ]; then
      ALLOK=1
      for T in $FAILED; do
        OK=0
        for try in 1 2 3; do
          if PYTHONPATH=$WT timeout 300 /venv/bin/python -m pytest -q -p no:cacheprovider --timeout=900 "$T" > /dev/null 2>&1; then OK=1; break; fi
          sleep 2
        done
        if [ $OK = 0 ]; then
          git -C "$WT" stash -q
          if ! PYTHONPATH=$WT timeout 300 /venv/bin/python -m pytest -q -p no:cacheprovider --timeout=900 "$T" > /dev/null 2>&1; then OK=2; fi
          git -C "$WT" stash pop -q
          if [ $OK = 2 ] && [[ "$T" == *test_exit_from_file* ]]; then
            # the test only asks that `python -m klongpy.cli -d exit.kg` exits 0 within 10 s; run it with a longer limit
            echo '.x(0)' > /tmp/vs.$PID$L.exit.kg
            (cd "$WT" && PYTHONPATH=$WT timeout 300 /venv/bin/python -m klongpy.cli -d /tmp/vs.$PID$L.exit.kg > /dev/null 2>&1) || OK=0
          fi
        fi
        [ $OK != 0 ] || ALLOK=0
      done
      if [ $ALLOK = 1 ]; then RC_SUITE=0; SUITE="$SUITE; the failing load-sensitive tests ($(echo $FAILED | tr '\n' ' ')) passed when rerun alone, or fail on the clean tree too at this machine load (exit.kg then run by hand with a longer limit: exit 0)"; fi
    fi
  fi
fi
cd /verif
VK_REPO="$WT" VK_NO_EVIDENCE=1 timeout 3000 /venv/bin/python -m vk.run "$PID" --tier quick > /tmp/vs.$PID$L.check 2>&1; RC_CHECK=$?
KEYS=$(grep -E "^  key:" /tmp/vs.$PID$L.check | head -8 | sed 's/^  key: //' | tr '\n' '|')
git -C "$WT" checkout -q -- .
cp "$PATCH" "$DST/patch.diff"; cp "$SRC/demo.py" "$DST/demo.py"; cp "$SRC/notes.md" "$DST/notes.md" 2>/dev/null
/venv/bin/python - "$PID" "$L" "$HEAD" "$RC_CLEAN" "$RC_MUT" "$RC_SUITE" "$SUITE" "$RC_CHECK" "$KEYS" "$PATCH" <<'EOF'
import json, sys, os
pid, L, head, rc_clean, rc_mut, rc_suite, suite, rc_check, keys, patch = sys.argv[1:]
dst = f"/verif/seeded/{pid}-{L}"
notes = open(os.path.join(dst, "notes.md")).read() if os.path.exists(os.path.join(dst, "notes.md")) else ""
meta = {
    "property": pid,
    "variant": L,
    "origin": "written by an independent sub-agent that was given only the property record and a scratch worktree",
    "applies_to_repo_commit": head,
    "rebased": os.path.basename(patch) != "patch.diff",
    "needs_to_manifest": notes.strip().split("\n\n")[0][:600],
    "ran": {
        "demo_on_clean_tree_exit": int(rc_clean), "demo_with_change_exit": int(rc_mut),
        "test_suite_with_change": {"exit": int(rc_suite), "summary": suite.strip()},
        "verif_check_quick_exit": int(rc_check), "verif_violation_keys": [k for k in keys.split("|") if k],
    },
    "confirmed": int(rc_clean) == 0 and int(rc_mut) == 1 and int(rc_suite) == 0,
    "detected_by_check": int(rc_check) == 1,
}
json.dump(meta, open(os.path.join(dst, "meta.json"), "w"), indent=1)
print(pid, L, "confirmed" if meta["confirmed"] else "NOT-CONFIRMED", "detected" if meta["detected_by_check"] else "MISSED",
      f"(clean={rc_clean} mut={rc_mut} suite={rc_suite}:{suite.strip()[:50]} check={rc_check})")
EOF
