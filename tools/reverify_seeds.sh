#!/bin/bash
# usage: tools/reverify_seeds.sh <scratch worktree of /repo> [seed ids...]
# Re-runs the quick check of every stored seeded change against the CURRENT /repo HEAD (patch applied in the scratch
# worktree, never in /repo) and records the outcome in seeded/<id>/meta.json under "at_head".
set -u
WT=$1; shift
cd /verif
IDS="$@"
[ -n "$IDS" ] || IDS=$(ls seeded)
HEAD=$(git -C /repo rev-parse --short HEAD)
for id in $IDS; do
  P=${id%%-*}
  git -C "$WT" reset -q --hard; git -C "$WT" checkout -q --detach "$(git -C /repo rev-parse HEAD)"
  if ! git -C "$WT" apply "/verif/seeded/$id/patch.diff" 2>/dev/null; then
    status="does-not-apply"; rc=-1; keys=""
  else
    VK_REPO="$WT" VK_NO_EVIDENCE=1 timeout 3000 /venv/bin/python -m vk.run "$P" --tier quick > "/tmp/rv.$id.out" 2>&1; rc=$?
    keys=$(grep -E '^  key:' "/tmp/rv.$id.out" | head -4 | sed 's/^  key: //' | tr '\n' '|')
    if [ $rc -eq 1 ]; then status="detected"; elif [ $rc -eq 0 ]; then status="MISSED"; else status="harness-error"; fi
  fi
  git -C "$WT" reset -q --hard
  /venv/bin/python - "$id" "$HEAD" "$status" "$rc" "$keys" <<'EOF'
import json, sys
sid, head, status, rc, keys = sys.argv[1:]
p = f"/verif/seeded/{sid}/meta.json"
m = json.load(open(p))
m["at_head"] = {"repo_commit": head, "result": status, "check_exit": int(rc), "violation_keys": [k for k in keys.split("|") if k]}
json.dump(m, open(p, "w"), indent=1, ensure_ascii=False)
EOF
  echo "$id $status $(echo $keys | cut -c1-120)"
done
