#!/venv/bin/python
"""Regenerates /verif/MANIFEST.json from the table below (kept in one place so it stays valid)."""
import json
import os

HERE = os.path.dirname(os.path.dirname(os.path.abspath(__file__)))

PY = "/venv/bin/python"

CHECKS = {
    "C06": dict(
        category="exploration",
        technique="property-based testing (Hypothesis recursive expression-tree strategies) against an independent forward-mode dual-number evaluator, with conditioning-aware tolerances",
        text="Generated scalar trees over + - * %, constant and variable exponents, negation, reductions, indexing, each, imported "
             "exp/sin/cos/tanh/sqrt/log, and vector-valued trees over the whole parameter (reverse, drop, take, scale, join, each, "
             "scan) are differentiated with f:>p, p-nabla-f, p-jacobian-g, .jacobian, loss:>[w b] and [w b]-jacobian-g on numpy "
             "and torch at grid points of the smooth domain; every entry must equal the exact derivative computed by pure-Python "
             "dual numbers within a tolerance that includes the central-difference truncation term. Exploration-level.",
        note="Trusted: the dual-number evaluator (60 lines); tolerances stated in ASSUMPTIONS; ill-conditioned cases (intermediate "
             "quantities > 1e3, third derivative > 1e7) and functions independent of the parameter are rejected, not judged.",
        design="3/C06"),
    "C05": dict(
        category="exploration",
        technique="differential property-based testing (Hypothesis + exhaustive small universe): compiled vs compiler-off twin interpreter",
        text="Generated expression trees of the compilable grammar x positions x (re)binding histories x both backends are "
             "evaluated in a compiling interpreter and in a twin with the compiler off; structure, elements, integer/real kind "
             "and error/undefined status must agree. Exploration-level: no absence proof; depth<=3, closed binding universe.",
        note="Trusted: the tree-walking interpreter as the reference; canonicalisation in vk/canon.py; magnitude guard "
             "(cases above 50/22 bits rejected, not judged).",
        design="3/C05"),
    "C11": dict(
        category="exploration",
        technique="property-based round-trip testing (Hypothesis recursive value strategies): write -> read -> compare, rewrite idempotence, Form(Format(x))",
        text="Generated values of every data kind (extreme/negative numbers, exponent reals, hostile strings, nested lists, "
             "dictionaries) are written with kg_write/.w, read back with .rs/.r and must be equal and rewrite identically; "
             "x:$$x must match x for atoms. Exploration-level over a recursive generator; no absence proof.",
        note="Trusted: vk/canon.py canonicalisation; values are those the interpreter itself builds from literals or "
             "injected numpy objects; dictionaries nested inside lists/dictionaries are outside the stated domain.",
        design="3/C11"),
    "C12": dict(
        category="exploration",
        technique="exhaustive small-alphabet enumeration + token-level mutation fuzzing of the .kg corpus + generated long inputs, under a deterministic sys.settrace work budget; parse-twice structural differential",
        text="Every string of length<=3 over the token alphabet and every short multi-character-token string is parsed "
             "(exhaustive), plus Hypothesis-chosen single/double token edits of the repository's .kg corpus lines and generated long "
             "nestings. Each parse must finish (or raise) within the fixed polynomial line-event budget, re-parse to a structurally "
             "identical program, leave variables untouched and evaluate identically. Exhaustive for the small space, exploration beyond.",
        note="Trusted: line events inside parser.py/interpreter.py as the work measure; B(n)=20000+2000n+20n^2; evaluation is "
             "compared only for programs without system functions; address-free reprs patched onto parser objects (display only).",
        design="3/C12"),
    "C15": dict(
        category="exploration",
        technique="property-based testing of generated timer scenarios on a harness-owned virtual-time event loop; online monitor / trace predicate as oracle",
        text="The real .timer/.timerc/_call_periodic code runs on a virtual-time loop (asyncio eligibility rule) under generated "
             "callback scripts (durations, return values, cancel-self/cancel-other/redefine/raise), intervals, inexact start "
             "times, early/late dispatch and external cancels; a monitor checks boundary, once-per-boundary, skip-missed, "
             "stop-for-good, .timerc result and re-resolution clauses on every invocation. Exploration-level.",
        note="Trusted: the virtual loop's fidelity to asyncio's call_at/call_later/call_soon semantics (clock resolution 1e-9); "
             "return values limited to documented 1/0 (+2); exact-boundary callback ends accept both readings.",
        design="3/C15"),
    "C10": dict(
        category="exploration",
        technique="stateful property-based testing (Hypothesis rule-based state machine) against a Python dict model with alias groups",
        text="Generated histories of create/put (either side, through functions, @, Each, Each-Left)/find/remove/size/each/alias/"
             "literal-re-evaluation operations run as Klong source; after every step every alias must agree with the dict model "
             "(lookups, :undefined for absent keys, #d, each-pair multiset). Exploration-level over histories <= 30 steps.",
        note="Trusted: the dict model; Match-style numeric comparison; d@k not judged (reference defines @ for lists/strings only).",
        design="3/C10"),
    "C16": dict(
        category="exploration",
        technique="stateful property-based testing (Hypothesis rule-based state machines) of the real stores on a temp directory against a dict model, with the cache accounting invariant checked after every step",
        text="Generated set/get/missing/reopen/unload/oversize histories run against KeyValueStorage (Python API and Klong source) "
             "and TableStorage under cache limits that force evictions; every result is compared with a dict model (table store: "
             "merge with stored rows winning), the FileCache accounting invariant and the directory contents are checked after "
             "each step, and a freshly opened store is scanned at the end. Exploration-level.",
        note="Trusted: dict / merge model; logical clock replacing time.time_ns inside the cache; sequential use only; prefix-free keys.",
        design="3/C16"),
    "C17": dict(
        category="fault_enumeration",
        technique="generated set sequences x exhaustive enumeration of crash points (every prefix of the recorded raw file-system trace) x loss choices, each crash image reopened; plus real SIGKILL of a child at every operation boundary",
        text="For Hypothesis-generated sequences of sets the raw file-system trace (mkdir/open-truncate/write/fsync/close) is "
             "recorded; every prefix x {none, all, truncation-only, byte-prefix} loss is materialised and reopened with a fresh store: "
             "completed sets must read back exactly, no key other than the in-flight one may fail or change. A child process killed at "
             "every traced operation covers real process death. Fault enumeration is exhaustive per sequence; sequences are sampled.",
        note="Trusted: the stated persistence model (fsync makes content + namespace durable; unsynced data may be lost wholly/partly; "
             "unsynced truncation may persist); trace fidelity (raw-level FileIO tracing, cross-checked with strace by hand).",
        design="3/C17"),
    "C19": dict(
        category="exploration",
        technique="stateful property-based testing (Hypothesis rule-based state machine, ddmin over the operation list) against a list-of-rows model",
        text="Generated histories of create/insert/batch-insert/re-insert/index/rindex/add-column and observation operations (column "
             "read, #t, .schema, SQL through .db) run as Klong source; every observation is compared with a list-of-rows model "
             "(insertion order when unindexed, one row per key ordered by key when indexed). Observations are rules of their own, so "
             "reads directly after inserts are generated. Exploration-level.",
        note="Trusted: the row model; numeric comparison of cell values; DuckDB results compared flattened (klongpy squeezes them); "
             "index columns unique when .index is called.",
        design="3/C19"),
    "C07": dict(
        category="fault_enumeration",
        technique="exhaustive enumeration of gradient forms x parameter shapes x fault positions (probe raising at its k-th call for every k) x backends, plus Hypothesis-generated parameter values; before/after state snapshot as oracle",
        text="Every gradient form (f:>p, p-nabla-f with symbol and literal, Jacobian forms, .jacobian, multi-parameter forms) is run on "
             "both backends with a loss that succeeds, raises at each possible evaluation, returns a non-scalar or names an unknown "
             "variable; the bit-exact snapshot (value, type, dtype, requires_grad) of all user variables and the loss value must be "
             "identical before and after. Exhaustive over fault positions per form/shape.",
        note="Trusted: snapshot function; probe counting; closed set of forms and four parameter shapes plus generated real vectors.",
        design="3/C07"),
    "C08": dict(
        category="exploration",
        technique="differential property-based testing (Hypothesis expression-tree strategies): backend=numpy vs backend=torch on value, kind and writer text",
        text="Generated numeric-core programs (depth<=3) and compiler-only programs over scalar/vector/matrix bindings are "
             "evaluated under both backends; when both return, shape, integer/real kind, elements (single-precision tolerance) and "
             "the tokenised writer text must agree; compiler-only programs must be accepted by both. Exploration-level.",
        note="Trusted: numpy backend as the reference side of the differential; domain guards (integer operands for ! and :%, no "
             "poles, magnitudes < 2^24); near-integral reals may come back as integers from float32.",
        design="3/C08"),
    "C03": dict(
        category="exploration",
        technique="property-based testing with a textual-substitution oracle (Hypothesis body/argument/call-form strategies), exhaustive enumeration of projection patterns x fill orders and of the conditional truth universe, fault enumeration of raise positions against a small statement-language model",
        text="(a) generated function bodies, argument tuples and call forms (literal, variable, @, each, each-2, over, .f recursion, "
             "projection; with and without explicit arity) must equal the body with argument literals substituted, evaluated in a "
             "fresh interpreter; (b) every projection pattern of arity 2/3 x every ordered partition of the holes; (c) nested calls "
             "with locals and global assignments failing at every position: caller state, context depth and a probe suite must match "
             "the model / a fresh interpreter; (d) conditionals over the truth universe. Exhaustive for (b),(d), exploration for (a),(c).",
        note="Trusted: substitution is evaluated by klongpy itself (plain evaluation as reference); the statement-language model of (c).",
        design="3/C03"),
    "C04": dict(
        category="exploration",
        technique="stateful property-based testing (Hypothesis rule-based state machine, ddmin over the statement list): every statement re-run in a fresh interpreter loaded with a copy of the pre-state, plus a frame condition checked independently",
        text="Generated histories of assignments, amend / amend-in-depth, derived sub-lists, function definitions and calls, adverb "
             "expressions, verbatim repetitions, module blocks and dictionary updates; before each statement a fresh interpreter is "
             "loaded from the canonical pre-state and must give the same result and post-state, and every variable the statement "
             "does not assign must be unchanged. Exploration-level over histories <= 12 statements.",
        note="Trusted: state is reloaded from canonical values as literal text and from recorded function sources; the active module "
             "is restored; self-bound symbols count as undefined; statements reading never-assigned names are not minimised into.",
        design="3/C04"),
    "C09": dict(
        category="exploration",
        technique="exhaustive enumeration of Python callable signature shapes x kinds x call forms with a recorded call log as oracle, plus Hypothesis-generated wrapper histories (redefinition / deletion / re-creation) against the Klong call as reference",
        text="Every documented signature shape (and permutations, optional klong parameter) as lambda / def / bound method / .py import "
             "is applied through direct, alias, projection, each, each-2, over and @ forms: the call log must hold one entry per "
             "application with the evaluated arguments in positional order and the return value must be the result. Wrapper histories "
             "compare klong[name](*args) with name(a;b;c) on the current definition, incl. wrong argument counts. Exhaustive for the "
             "callable part, exploration for histories.",
        note="Trusted: recorded call log; Klong lists are numpy arrays (bare Python lists are programs to klongpy and are not used as data).",
        design="3/C09"),
    "C01": dict(
        category="exploration",
        technique="exhaustive enumeration of verbs x a closed operand universe plus Hypothesis recursive operands against an independent pure-Python reference model of the verb semantics (self-validated on the official suite)",
        text="Every monad/dyad is applied to every operand (pair) of a ~65-value universe (exhaustive) and to generated recursive "
             "operands; where the reference model (written from the verb docstrings, reproducing all single-verb cases of the official "
             "suite) defines a value, klongpy must yield it with the same structure, elements and integer/real/character/string kind "
             "and must not raise. Systemic divergences are listed as open findings by clause/operand-trait keys.",
        note="Trusted: vk/refmodel.py (declines where reference and suite are silent); canonicalisation; Grade judged by a validity predicate.",
        design="3/C01"),
    "C02": dict(
        category="exploration",
        technique="exhaustive enumeration of adverbs x verb forms x operand universe (and two-adverb chains) against the adverb's definitional expansion, each plain application evaluated as its own source text",
        text="For every adverb, verb form (operators, lambdas, named function, projection, Python callables) and operand of a closed "
             "universe the adverb expression must equal the reference expansion assembled by the harness from plain applications of the "
             "same verb (fold, prefixes, per-member results, pairs, iteration, fixpoint); chains are expanded recursively. Cases whose "
             "expansion leaves the verb's reference domain are rejected. Exhaustive over the universe.",
        note="Trusted: plain applications are evaluated by klongpy itself; C01's reference model supplies the domain predicates; "
             "numbers in assembled lists are compared by value.",
        design="3/C02"),
}

NOT_APPLICABLE = {
}

ALL = ["C%02d" % i for i in range(1, 21)]


def main():
    checks = []
    for pid in ALL:
        c = CHECKS.get(pid)
        if not c:
            continue
        checks.append({
            "property_id": pid,
            "quick_cmd": f"{PY} -m vk.run {pid} --tier quick",
            "thorough_cmd": f"{PY} -m vk.run {pid} --tier thorough",
            "evidence_file": f"/verif/evidence/{pid}.json",
            "replay_cmd_template": f"{PY} -m vk.run {pid} --replay {{path}}",
            "engine": "vk",
            "level_claimed": {"category": c["category"], "text": c["text"], "design_ref": c["design"]},
            "level_note": c["note"],
            "technique": c["technique"],
        })
    na = []
    for pid in ALL:
        if pid not in CHECKS:
            na.append({"property_id": pid,
                       "reason": NOT_APPLICABLE.get(pid, "check not built yet in this revision (technique applies; see DESIGN.md section 3)")})
    m = {
        "version": 1,
        "setup_cmd": f"{PY} -c 'import hypothesis, numpy' || /venv/bin/pip install --no-index --find-links /opt/veriftools/wheels hypothesis",
        "hooks": {
            "guard": "KLONGPY_VERIF",
            "enable": "no source hooks: every interposition is a harness-side attribute assignment on imported klongpy modules (DESIGN.md 2.8); checks import klongpy from /repo's working tree",
            "baseline_off_cmd": "cd /repo && /venv/bin/python -m pytest -ra -q -p no:cacheprovider --timeout=900 --continue-on-collection-errors",
            "source_commits": [],
            "add_only": True,
        },
        "engines": [{"name": "vk", "path": "/verif/vk", "serves_properties": sorted(CHECKS),
                     "kind_free_text": "Hypothesis strategies / rule-based state machines, exhaustive small-universe enumeration, "
                                       "generated schedules and fault positions, each against an explicit oracle"}],
        "checks": checks,
        "not_applicable": na,
        "notes": "All checks: cwd=/verif, VERIF_SEED/VERIF_TIER honoured, exit 0 held / 1 VIOLATION / 2 harness error. "
                 "known_findings.json lists genuine defects (open) and repaired ones (fixed).",
    }
    with open(os.path.join(HERE, "MANIFEST.json"), "w") as fh:
        json.dump(m, fh, indent=1)
        fh.write("\n")
    # validate
    try:
        import jsonschema
        jsonschema.validate(m, json.load(open("/root/.vp/MANIFEST.schema.json")))
        print("MANIFEST.json valid;", len(checks), "checks")
    except ImportError:
        print("jsonschema not available; written", len(checks), "checks")


if __name__ == "__main__":
    main()
