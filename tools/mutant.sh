#!/bin/bash
# usage: tools/mutant.sh <worktree> <patch.diff> <PID> [tier]   - run a check against a patched scratch worktree
set -u
WT=$1; PATCH=$2; PID=$3; TIER=${4:-quick}
git -C "$WT" checkout -q -- . && git -C "$WT" checkout -q --detach $(git -C /repo rev-parse HEAD) && git -C "$WT" apply "$PATCH" || { echo "patch failed"; exit 3; }
cd /verif && VK_REPO="$WT" VK_NO_EVIDENCE=1 /venv/bin/python -m vk.run "$PID" --tier "$TIER" > /tmp/mutant.$PID.out 2>&1
rc=$?
git -C "$WT" checkout -q -- .
echo "exit=$rc"; grep -E "key:|^C[0-9]+ |HARNESS" /tmp/mutant.$PID.out | head -20
